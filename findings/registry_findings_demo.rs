// Demonstration of known findings F3 and F4 (property C13) against the real crux_core.
// Drop into crux_core/tests/ and run: cargo test -p crux_core --test registry_findings_demo -- --nocapture
// Both tests FAIL on the current tree (that is the finding).
use crux_core::bridge::{BridgeWithSerializer, Request};
use crux_core::capability::Operation;
use crux_core::macros::effect;
use crux_core::render::RenderOperation;
use crux_core::{Command, Core};
use futures::StreamExt;
use serde::{Deserialize, Serialize};
use serde_json::json;

#[derive(Serialize, Deserialize, Clone, PartialEq, Debug)]
pub struct Sub;
impl Operation for Sub {
    type Output = u8;
}

#[effect]
pub enum Effect {
    Render(RenderOperation),
    Sub(Sub),
}

#[derive(Serialize, Deserialize, Debug)]
pub enum Event {
    Render,
    SubscribeTakeOne,
    Got(u8),
}

#[derive(Default)]
pub struct App;
impl crux_core::App for App {
    type Event = Event;
    type Model = ();
    type ViewModel = ();
    type Capabilities = ();
    type Effect = Effect;
    fn update(&self, event: Event, _m: &mut (), _c: &()) -> Command<Effect, Event> {
        match event {
            Event::Render => crux_core::render::render(),
            // a stream whose consumer ends after the first item
            Event::SubscribeTakeOne => Command::new(|ctx| async move {
                let mut s = ctx.stream_from_shell(Sub);
                if let Some(v) = s.next().await {
                    ctx.send_event(Event::Got(v));
                }
            }),
            Event::Got(_) => Command::done(),
        }
    }
    fn view(&self, _m: &()) {}
}

fn ids(bridge: &BridgeWithSerializer<App>, event: serde_json::Value) -> Vec<u32> {
    let mut out = vec![];
    bridge
        .process_event(&event, &mut serde_json::Serializer::new(&mut out))
        .unwrap();
    let reqs: Vec<Request<EffectFfi>> = serde_json::from_slice(&out).unwrap();
    reqs.iter().map(|r| r.id.0).collect()
}

#[test]
fn f3_notifications_are_remembered_forever() {
    let bridge = BridgeWithSerializer::<App>::new(Core::default());
    let mut seen = vec![];
    for _ in 0..5 {
        seen.extend(ids(&bridge, json!("Render")));
    }
    println!("F3: ids of five consecutive render notifications: {seen:?}");
    // nothing is outstanding between the calls (a notification can never be resolved), so a
    // registry bounded by outstanding work would hand out the same slot again
    assert!(seen.iter().all(|&i| i == seen[0]), "F3: registry grows by one entry per notification: {seen:?}");
}

#[test]
fn f4_ended_stream_is_remembered_forever() {
    let bridge = BridgeWithSerializer::<App>::new(Core::default());
    let sub = ids(&bridge, json!("SubscribeTakeOne"))[0];
    let mut out = vec![];
    bridge
        .handle_response(sub, json!(1), &mut serde_json::Serializer::new(&mut out))
        .expect("first item is delivered");
    let mut out = vec![];
    let second = bridge.handle_response(sub, json!(2), &mut serde_json::Serializer::new(&mut out));
    println!("F4: second item after the consumer ended: {second:?}");
    assert!(second.is_err());
    // the bridge has just learnt that the stream can no longer be resolved; its slot should be free
    let next = ids(&bridge, json!("SubscribeTakeOne"))[0];
    println!("F4: id of the ended stream = {sub}, id of the next request = {next}");
    assert_eq!(next, sub, "F4: the ended stream's entry is still held");
}
