// Demonstration of F11 (property C02, fixed): before the fix, the second resolution of a
// one-shot request through Core::resolve panicked (debug_assert) instead of returning Err.
// Drop into crux_core/tests/ and run: cargo test -p crux_core --test F11_core_resolve_debug_assert
use crux_core::capability::Operation;
use crux_core::render::{render, RenderOperation};
use crux_core::{macros::effect, Command, Core};
use serde::{Deserialize, Serialize};

#[derive(Serialize, Deserialize, Clone, PartialEq, Debug)]
pub struct Ask;
impl Operation for Ask {
    type Output = u8;
}

#[effect]
pub enum Effect {
    Render(RenderOperation),
    Ask(Ask),
}

#[derive(Debug)]
pub enum Event {
    Go,
    Got(u8),
}

#[derive(Default)]
pub struct App;
impl crux_core::App for App {
    type Event = Event;
    type Model = ();
    type ViewModel = ();
    type Capabilities = ();
    type Effect = Effect;
    fn update(&self, event: Event, _m: &mut (), _c: &()) -> Command<Effect, Event> {
        match event {
            Event::Go => Command::request_from_shell(Ask).then_send(Event::Got),
            Event::Got(_) => render(),
        }
    }
    fn view(&self, _m: &()) {}
}

#[test]
fn second_resolution_of_a_one_shot_is_an_error_not_a_panic() {
    let core = Core::<App>::default();
    let mut effects = core.process_event(Event::Go);
    let Effect::Ask(mut req) = effects.remove(0) else {
        panic!()
    };
    assert!(core.resolve(&mut req, 1).is_ok());
    let second = std::panic::catch_unwind(std::panic::AssertUnwindSafe(|| {
        core.resolve(&mut req, 2).map(|_| ())
    }));
    assert!(matches!(second, Ok(Err(_))), "F11: Core::resolve panicked instead of returning Err");
}
