// Demonstrations, against the real crux_http, of the obligations of unit H that fail on the
// tree as first found (DESIGN.md section 6, F9/F14/F15/F5). Run as an integration test:
//   cp /verif/findings/http_findings_demo.rs <worktree>/crux_http/tests/ && cargo test -p crux_http --test http_findings_demo
// Each test asserts what the PROPERTY says; on a tree with the defect the test fails.
mod shared {
    use crux_core::macros::Effect;
    use crux_core::Command;
    use crux_http::Http;
    use serde::{Deserialize, Serialize};

    #[derive(Default)]
    pub(crate) struct App;

    #[derive(Serialize, Deserialize, PartialEq, Eq, Debug, Clone)]
    pub enum Event {
        GetRedirect(String),
        PostStream,
        ManyHeaders,
        Set(crux_http::Result<crux_http::Response<String>>),
    }

    #[derive(Default, Serialize, Deserialize)]
    pub struct Model {
        pub got: Vec<String>,
    }

    #[derive(Serialize, Deserialize, Default)]
    pub struct ViewModel;

    impl crux_core::App for App {
        type Event = Event;
        type Model = Model;
        type ViewModel = ViewModel;
        type Capabilities = Capabilities;
        type Effect = Effect;

        fn update(&self, event: Event, model: &mut Model, caps: &Capabilities) -> Command<Effect, Event> {
            match event {
                Event::GetRedirect(url) => {
                    caps.http
                        .get(url)
                        .middleware(crux_http::middleware::Redirect::new(5))
                        .expect_string()
                        .send(Event::Set);
                }
                Event::PostStream => {
                    // a body whose length is not known up front (http_types::Body::from_reader(.., None))
                    let reader = futures_util::io::Cursor::new(b"streamed body".to_vec());
                    let body = http_types::Body::from_reader(futures_util::io::BufReader::new(reader), None);
                    caps.http.post("http://example.com/up").body(body).expect_string().send(Event::Set);
                }
                Event::ManyHeaders => {
                    caps.http
                        .get("http://example.com/h")
                        .header("x-a", "1")
                        .header("x-b", "2")
                        .header("x-c", "3")
                        .header("x-d", "4")
                        .header("x-e", "5")
                        .header("x-f", "6")
                        .expect_string()
                        .send(Event::Set);
                }
                Event::Set(r) => model.got.push(format!("{r:?}")),
            }
            Command::done()
        }

        fn view(&self, _model: &Self::Model) -> Self::ViewModel {
            ViewModel
        }
    }

    #[derive(Effect)]
    pub(crate) struct Capabilities {
        pub http: Http<Event>,
    }
}

mod tests {
    use crate::shared::{App, Event, Model};
    use crux_core::testing::AppTester;
    use crux_http::protocol::{HttpResponse, HttpResult};

    /// F14 (C16): "resolves relative locations against the current URL". Two consecutive relative
    /// redirects: a/x/y --"p/q"--> a/x/p/q --"r"--> must be a/x/p/r (RFC 3986 against the URL
    /// that answered), the tree as found joined "r" against the stale a/x/y and asked for a/x/r.
    #[test]
    fn f14_second_relative_redirect_resolves_against_the_current_url() {
        let app = AppTester::<App>::default();
        let mut model = Model::default();
        let mut req = app
            .update(Event::GetRedirect("http://a.example/x/y".into()), &mut model)
            .expect_one_effect()
            .expect_http();
        assert_eq!(req.operation.url, "http://a.example/x/y");
        let mut req2 = app
            .resolve(&mut req, HttpResult::Ok(HttpResponse::status(302).header("location", "p/q").build()))
            .unwrap()
            .expect_one_effect()
            .expect_http();
        assert_eq!(req2.operation.url, "http://a.example/x/p/q");
        let req3 = app
            .resolve(&mut req2, HttpResult::Ok(HttpResponse::status(302).header("location", "r").build()))
            .unwrap()
            .expect_one_effect()
            .expect_http();
        assert_eq!(req3.operation.url, "http://a.example/x/p/r");
    }

    /// F9 (C15): "no response, however unusual, panics the core": a status code http-types has
    /// no name for (299) must give an outcome, not a panic.
    #[test]
    fn f9_unknown_status_code_does_not_panic() {
        let app = AppTester::<App>::default();
        let mut model = Model::default();
        let mut req = app
            .update(Event::GetRedirect("http://a.example/".into()), &mut model)
            .expect_one_effect()
            .expect_http();
        let r = std::panic::catch_unwind(std::panic::AssertUnwindSafe(|| {
            app.resolve(&mut req, HttpResult::Ok(HttpResponse::status(299).body("x").build()))
        }));
        assert!(r.is_ok(), "resolving with status 299 panicked");
    }

    /// F15 (C14): "body bytes are the ones the app specified": a body of unknown length
    /// (is_empty() == None) must still reach the shell.
    #[test]
    fn f15_body_of_unknown_length_reaches_the_shell() {
        let app = AppTester::<App>::default();
        let mut model = Model::default();
        let req = app.update(Event::PostStream, &mut model).expect_one_effect().expect_http();
        assert_eq!(req.operation.body, b"streamed body".to_vec());
    }

    /// F6 (C11): "replaying the same sequence of events ... yields the same sequence of effect
    /// requests - byte for byte once serialized ... Nothing observable depends on hash seeds":
    /// the same event against fresh cores must give the same HTTP request, header order included.
    #[test]
    fn f6_the_protocol_request_does_not_depend_on_hash_seeds() {
        let first = {
            let app = AppTester::<App>::default();
            let mut model = Model::default();
            app.update(Event::ManyHeaders, &mut model).expect_one_effect().expect_http().operation.clone()
        };
        for _ in 0..20 {
            let app = AppTester::<App>::default();
            let mut model = Model::default();
            let again = app.update(Event::ManyHeaders, &mut model).expect_one_effect().expect_http().operation.clone();
            assert_eq!(first, again, "the same history produced two different effect requests");
        }
    }

    /// F5 (C11): "values the API hands to an app or a test compare equal exactly when their
    /// contents are equal": two responses built from the same parts are equal, and responses that
    /// differ in a header value are not.
    #[test]
    fn f5_response_equality_follows_contents() {
        let build = |n: usize, last: &str| {
            let mut b = crux_http::testing::ResponseBuilder::ok();
            for i in 0..n {
                b = b.header(format!("x-h{i}").as_str(), "v");
            }
            b.header("x-last", last).body("b".to_string()).build()
        };
        for _ in 0..20 {
            assert!(build(6, "1") == build(6, "1"), "equal responses compare unequal");
        }
        assert!(build(0, "1") != build(0, "2"));
        // one side has an extra header: contents differ
        let a = crux_http::testing::ResponseBuilder::ok().body("b".to_string()).build();
        let b = crux_http::testing::ResponseBuilder::ok().header("x-extra", "1").body("b".to_string()).build();
        assert!(a != b, "a response with an extra header compares equal to one without");
        // a header with an extra value
        let c = crux_http::testing::ResponseBuilder::ok().header("x-a", "1").body("b".to_string()).build();
        let mut d = crux_http::testing::ResponseBuilder::ok().header("x-a", "1").body("b".to_string()).build();
        d.append_header("x-a", "2");
        assert!(c != d, "a header with an extra value compares equal");
    }
}
