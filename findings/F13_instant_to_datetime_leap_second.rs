// Demonstration of F13 (property C19, fixed): an `Instant` with an invalid sub-second part
// (nanos >= 10^9; `Instant::new` refuses it, the derived `Deserialize` does not - this is how a
// shell's `TimeResponse::Now` reaches the app) was REJECTED by `TryFrom<Instant> for DateTime<Utc>`
// for every `seconds` except those with `seconds % 60 == 59`, where chrono reads the value as a
// leap second and the conversion answered `Ok`. Found by the obligation
// verus:T:chrono/Instant->DateTime/an-invalid-sub-second-part-is-rejected-explicitly.
// Drop into crux_time/tests/ and run:
//   cargo test -p crux_time --features chrono --test F13_instant_to_datetime_leap_second
// Before the fix `invalid_sub_second_part_at_second_59` fails; after it both pass.
#![cfg(feature = "chrono")]
use chrono::{DateTime, Utc};
use crux_time::Instant;

fn instant(seconds: u64, nanos: u32) -> Instant {
    serde_json::from_str(&format!(r#"{{"seconds":{seconds},"nanos":{nanos}}}"#)).unwrap()
}

#[test]
fn invalid_sub_second_part_at_second_58() {
    assert!(DateTime::<Utc>::try_from(instant(58, 1_500_000_000)).is_err());
}

#[test]
fn invalid_sub_second_part_at_second_59() {
    // before the fix: Ok(1970-01-01T00:00:60.5Z), a leap second nobody asked for
    assert!(DateTime::<Utc>::try_from(instant(59, 1_500_000_000)).is_err());
}
