"""Verus engine. A unit is /verif/verus/<unit>/unit.rs: a Verus file (preamble with assumed
contracts, spec functions, lemmas) with `//@extract` blocks that are filled, on every run, with
item text read from /repo's working tree. The only edits applied to extracted text are the ones
the block names (replacement signature checked against the real one, contract lines, numbered
regex rules, loop invariants by loop ordinal); each is counted and reported.

Directive grammar (each on its own line, inside the template):
  //@extract id=<id> file=<path under /repo> item="<fn NAME | struct NAME | enum NAME | const NAME | type NAME>"
             [within="<impl header prefix>"] [props=C01+C03] [closure="<regex>"] [after="<regex>": the item following its first match]
             [optional=1: if the item does not exist the block is skipped instead of being a lost anchor]
             (closure=: lift the block closure that follows the regex inside that fn; //@sig names what it captures)
  //@expect <original signature, whitespace-normalised, up to the body>   (lost anchor if different)
  //@sig <replacement signature>                                          (rules X1/X3/X4/X6/X7)
  //@contract            following lines (until next //@) go between signature and body
  //@rule <ID> <count|*> s<delim>regex<delim>replacement<delim>            applied to the body
  //@rule <ID> <count|*> closure<delim>anchor-regex<delim>header<delim>    every `<anchor>[move] |x| BODY` (anchor = the text up to and
             including the `(` or `, ` before the closure argument): the closure gets
             `header` (`$x` = its parameter) and BODY is kept verbatim as the block the header's contract is proved about
  //@rule <ID> <count|*> block<delim>anchor-regex<delim>replacement<delim>   every `<anchor>{ balanced block }` is replaced by
             `replacement` (`$body` = the block)
  //@loops <n>           the body must contain exactly n loops (else lost anchor)
  //@loop <k>            following lines go between the k-th loop header and its '{'
  //@attr <line>         attribute line put before the item (e.g. #[verifier::exec_allows_no_decreases_clause])
  //@bind NAME <regex>   `$NAME` in the contract / loop lines = group 1 of the regex in the real body (a local's name)
  //@keepattrs           do not strip attributes/doc comments (default strips them: rule X2)
  //@end
Labels: a trailing `// [C09+C12/name]` on a clause line makes that line an obligation.
"""
import json
import os
import re

from . import rscan
from .common import REPO, VERIF, WORK, Undecided, read, run, sha256_text, write

VERUS_DIR = os.path.join(VERIF, "verus")
LABEL_RE = re.compile(r"//\s*\[((?:C\d\d)(?:\+C\d\d)*)/([^\]]+)\]")

VERIFICATION_ERRORS = (
    "postcondition not satisfied",
    "unable to prove post-condition of closure",
    "post-condition of closure",
    "pre-condition of closure",
    "precondition not satisfied",
    "invariant not satisfied",
    "assertion failed",
    "possible arithmetic underflow/overflow",
    "possible division by zero",
    "decreases not satisfied",
    "possible bit shift underflow/overflow",
    "unreachable!() reached",  # vstd panics modelled as requires(false)
    "loop invariant not satisfied",
    "assertion failure",
    "recommendation not met",
    "could not prove termination",
    "failed this",
)


def parse_kv(s):
    out = {}
    for m in re.finditer(r'(\w+)=(?:"([^"]*)"|(\S+))', s):
        out[m.group(1)] = m.group(2) if m.group(2) is not None else m.group(3)
    return out


def locate_item(src, mask, item, within, after=None):
    """Return (start_idx_of_item_incl_attrs, sig_start, body_open_idx, end_idx_exclusive)."""
    kind, name = item.split(None, 1)
    lo, hi = 0, len(src)
    base_depth = 0
    if within:
        want = rscan.norm(within)
        found = None
        for mm in re.finditer(r"^[ \t]*(?:unsafe\s+)?impl\b", src, re.M):
            if not mask[mm.start()] or rscan.depth_at(src, mask, 0, mm.start()) != 0:
                continue
            b = rscan.body_open(src, mask, mm.end())
            header = rscan.norm(src[mm.start() : b])
            if header == want or header.startswith(want + " ") or header.startswith(want + "<"):
                if header == want:
                    found = (b, rscan.match_brace(src, mask, b))
                    break
                found = found or (b, rscan.match_brace(src, mask, b))
        if not found:
            raise Undecided(f"lost anchor: no `{within}` block")
        lo, hi = found[0] + 1, found[1]
    pat = {
        "fn": r"\bfn\s+" + re.escape(name) + r"\b",
        "struct": r"\bstruct\s+" + re.escape(name) + r"\b",
        "enum": r"\benum\s+" + re.escape(name) + r"\b",
        "const": r"\bconst\s+" + re.escape(name) + r"\b",
        "type": r"\btype\s+" + re.escape(name) + r"\b",
        "trait": r"\btrait\s+" + re.escape(name) + r"\b",
    }[kind]
    pos = lo
    if after:
        # `after="regex"`: the item that follows the first match of the regex (e.g. a #[cfg(..)] line that
        # selects one of several same-named items)
        am = rscan.find_code(src, mask, after, lo, hi) or re.compile(after).search(src, lo, hi)
        if not am:
            raise Undecided(f"lost anchor: no /{after}/ before `{item}`")
        pos = am.end()
    while True:
        mm = rscan.find_code(src, mask, pat, pos, hi)
        if not mm:
            raise Undecided(f"lost anchor: `{item}`" + (f" in `{within}`" if within else ""))
        if rscan.depth_at(src, mask, lo, mm.start()) == 0:
            break
        pos = mm.end()
    # signature starts at the beginning of the line holding visibility/keywords
    ls = src.rfind("\n", 0, mm.start()) + 1
    sig_start = ls + (len(src[ls : mm.start()]) - len(src[ls : mm.start()].lstrip()))
    # include preceding attribute / doc-comment lines
    item_start = ls
    while True:
        prev_end = item_start - 1
        if prev_end <= 0:
            break
        prev_start = src.rfind("\n", 0, prev_end) + 1
        line = src[prev_start:prev_end].strip()
        if line.startswith("#[") or line.startswith("///") or line.startswith("//"):
            item_start = prev_start
        else:
            break
    b = rscan.body_open(src, mask, mm.end())
    if src[b] == ";":
        end = b + 1
    else:
        end = rscan.match_brace(src, mask, b) + 1
        if kind in ("struct",) and src[end : end + 1] == ";":
            end += 1
    return item_start, sig_start, b, end


def apply_closure_rule(body, rid, want, delim, rest, counts):
    """`//@rule <ID> <n> closure<d>anchor-regex<d>header<d>`: every closure `[move] |x| BODY` that directly
    follows the anchor (the text up to and including the `(` or `, ` before the closure argument) gets
    the header (with `$x` standing for the parameter name) and BODY, whatever its shape, is kept as the
    block the header's contract is proved about: the contract comes from the property, not the body."""
    parts = rest.split(delim)
    if len(parts) < 3:
        raise Undecided(f"bad //@rule: {rid} closure")
    anchor, header = parts[0], parts[1]
    # the parameter may carry a type and the closure a return type: both are dropped, the header gives them
    # the parameter is a name or a tuple pattern `(a, b)`; a pattern is bound by a `let` in front of BODY
    rx = re.compile("(?:" + anchor + r")\s*(move\s+)?\|\s*(\w+|\(\s*\w+(?:\s*,\s*\w+)*\s*\))\s*(?::[^|]*)?\|\s*(?:->\s*[^{]+?(?=\{))?", re.S)
    mask = rscan.code_mask(body)
    out, pos, n = [], 0, 0
    for m in rx.finditer(body):
        if m.start() < pos or not mask[m.start()]:
            continue
        # the closure body runs to the first `)` or `,` at nesting depth 0
        depth, i = 0, m.end()
        while i < len(body):
            if mask[i]:
                c = body[i]
                if c in "([{":
                    depth += 1
                elif c in ")]}":
                    if depth == 0:
                        break
                    depth -= 1
                elif c == "," and depth == 0:
                    break
            i += 1
        if i >= len(body):
            raise Undecided(f"lost anchor: rule {rid}: unbalanced call after /{anchor}/")
        inner = body[m.end():i].rstrip()
        if not (inner.startswith("{") and inner.endswith("}") and rscan.match_brace(inner, rscan.code_mask(inner), 0) == len(inner) - 1):
            inner = "{ " + inner + " }"
        closure_start = m.start() + len(re.match("(?:" + anchor + r")\s*", body[m.start():], re.S).group(0))
        out.append(body[pos:closure_start])
        pname = m.group(2)
        if pname.startswith("("):
            inner = "{ let " + pname + " = p__; " + inner + " }"
            pname = "p__"
        out.append((m.group(1) or "") + header.replace("\\n", "\n").replace("$x", pname) + " " + inner)
        pos = i
        n += 1
    out.append(body[pos:])
    counts[rid] = counts.get(rid, 0) + n
    if want != "*" and int(want) != n:
        raise Undecided(f"lost anchor: rule {rid} expected {want} closure argument(s) after /{anchor}/, found {n}")
    return "".join(out)


def apply_block_rule(body, rid, want, delim, rest, counts):
    """`//@rule <ID> <n> block<d>anchor-regex<d>replacement<d>`: every `<anchor>{ ... }` (anchor text
    followed by a balanced brace block) is replaced, anchor and block, by `replacement`
    (`$body` stands for the block, braces included)."""
    parts = rest.split(delim)
    if len(parts) < 3:
        raise Undecided(f"bad //@rule: {rid} block")
    anchor, repl = parts[0], parts[1]
    rx = re.compile(anchor + r"(?=\{)", re.S)
    mask = rscan.code_mask(body)
    out, pos, n = [], 0, 0
    for m in rx.finditer(body):
        if m.start() < pos or not mask[m.start()]:
            continue
        end = rscan.match_brace(body, mask, m.end()) + 1
        out.append(body[pos:m.start()])
        out.append(repl.replace("$body", body[m.end():end]))
        pos = end
        n += 1
    out.append(body[pos:])
    counts[rid] = counts.get(rid, 0) + n
    if want != "*" and int(want) != n:
        raise Undecided(f"lost anchor: rule {rid} expected {want} block(s) after /{anchor}/, found {n}")
    return "".join(out)


def apply_rule(body, spec, counts):
    m = re.match(r"(\S+)\s+(\S+)\s+closure(.)(.*)$", spec, re.S)
    if m:
        return apply_closure_rule(body, m.group(1), m.group(2), m.group(3), m.group(4), counts)
    m = re.match(r"(\S+)\s+(\S+)\s+block(.)(.*)$", spec, re.S)
    if m:
        return apply_block_rule(body, m.group(1), m.group(2), m.group(3), m.group(4), counts)
    m = re.match(r"(\S+)\s+(\S+)\s+s(.)(.*)$", spec, re.S)
    if not m:
        raise Undecided(f"bad //@rule: {spec}")
    rid, want, delim, rest = m.groups()
    parts = rest.split(delim)
    if len(parts) < 3:
        raise Undecided(f"bad //@rule: {spec}")
    rx, rep = parts[0], parts[1]
    new, n = re.subn(rx, rep, body, flags=re.S)
    counts[rid] = counts.get(rid, 0) + n
    if want != "*" and int(want) != n:
        raise Undecided(f"lost anchor: rule {rid} expected {want} match(es) of /{rx}/, found {n}")
    return new


def strip_attrs(text):
    """Rule X2: drop attribute lines and doc comments (derive/serde/thiserror/doc have no effect on
    the bodies under proof). Returns (text, n_dropped)."""
    out, n = [], 0
    for line in text.split("\n"):
        s = line.strip()
        if s.startswith("#[") and s.endswith("]") or s.startswith("///") or s.startswith("// ANCHOR"):
            n += 1
            continue
        out.append(line)
    return "\n".join(out), n


def generate(unit):
    """Fill the template of `unit` from /repo. Returns dict(text, functions, rules, labels...)."""
    skipped_optional = []
    tpath = os.path.join(VERUS_DIR, unit, "unit.rs")
    tmpl = read(tpath).split("\n")
    # unit-wide world-threading rules: `//@@default-rule <ID> s/../../` lines apply (any number
    # of matches) to every extracted fn whose replacement signature takes `Tracked(w)`, after the
    # block's own rules, so that a call the block did not foresee is threaded too
    default_rules = [l.strip()[len("//@@default-rule"):].strip() for l in tmpl if l.strip().startswith("//@@default-rule")]
    out = []
    functions = []
    counts = {}
    i = 0
    cache = {}
    fn_props = {}  # generated line number (1-based) of an extracted item's first line -> (id, props)
    probes = []
    while i < len(tmpl):
        line = tmpl[i]
        if not line.strip().startswith("//@extract"):
            if line.strip().startswith("//@") and not line.strip().startswith("//@@"):
                raise Undecided(f"{tpath}:{i+1}: directive outside an extract block: {line.strip()}")
            out.append(line)
            i += 1
            continue
        kv = parse_kv(line.strip()[len("//@extract") :])
        blk = {"expect": [], "sig": None, "contract": [], "rules": [], "loops": None, "loop": {}, "attr": [], "keepattrs": False, "body": None}
        i += 1
        cur = None
        while i < len(tmpl) and tmpl[i].strip() != "//@end":
            s = tmpl[i].strip()
            if s.startswith("//@expect"):
                blk["expect"].append(s[len("//@expect") :].strip())  # several lines = alternatives
                cur = None
            elif s.startswith("//@sig"):
                blk["sig"] = s[len("//@sig") :].strip()
                cur = None
            elif s.startswith("//@contract"):
                cur = blk["contract"]
            elif s.startswith("//@rule"):
                blk["rules"].append(s[len("//@rule") :].strip())
                cur = None
            elif s.startswith("//@loops"):
                blk["loops"] = int(s.split()[1])
                cur = None
            elif s.startswith("//@loop"):
                k = int(s.split()[1])
                cur = blk["loop"].setdefault(k, [])
            elif s.startswith("//@attr"):
                blk["attr"].append(s[len("//@attr") :].strip())
                cur = None
            elif s.startswith("//@bind"):
                _, bname, brx = s.split(None, 2)
                blk.setdefault("bind", []).append((bname, brx))
                cur = None
            elif s.startswith("//@keepattrs"):
                blk["keepattrs"] = True
            elif s.startswith("//@entry"):
                cur = blk.setdefault("entry", [])
            elif cur is not None:
                cur.append(tmpl[i])
            elif s:
                raise Undecided(f"{tpath}:{i+1}: stray line in extract block: {s}")
            i += 1
        if i >= len(tmpl):
            raise Undecided(f"{tpath}: //@extract {kv.get('id')} has no //@end")
        i += 1
        path = os.path.join(REPO, kv["file"])
        if path not in cache:
            if not os.path.exists(path):
                raise Undecided(f"lost anchor: {kv['file']} does not exist")
            t = read(path)
            cache[path] = (t, rscan.code_mask(t))
        src, mask = cache[path]
        try:
            item_start, sig_start, b, end = locate_item(src, mask, kv["item"], kv.get("within"), kv.get("after"))
        except Undecided:
            if kv.get("optional"):
                # `optional=1`: an item the code may legitimately do without (a named constant it may inline);
                # its obligations are then not generated (the property goes undecided unless something else
                # in the unit is refuted - a refutation wins)
                skipped_optional.append(kv.get("id"))
                continue
            raise
        kind = kv["item"].split()[0]
        if kv.get("closure"):
            # closure lifting: the block of the closure that follows /closure-regex/ inside the located fn
            # becomes the body of a function whose signature the unit gives (//@sig); what it captures
            # become parameters. //@expect is checked against the closure header (`move |x|`).
            cm = rscan.find_code(src, mask, kv["closure"] + r"(?=(?:move\s+)?\|)", b, end)
            if not cm:
                raise Undecided(f"lost anchor: no closure after /{kv['closure']}/ in {kv['item']} of {kv['file']}")
            hm = re.compile(r"(?:move\s+)?\|\s*(\w+)\s*(?::[^|,]*)?((?:,\s*\w+\s*(?::[^|,]*)?)*)\|\s*(?:async\s+move\s+)?").match(src, cm.end())
            if not hm:
                raise Undecided(f"lost anchor: closure after /{kv['closure']}/ in {kv['item']} has no `|x, ..|` header")
            sig_start, b = cm.end(), hm.end()
            if src[b] != "{":
                # an expression closure `|x| EXPR`: EXPR runs to the `)` or `,` that closes the call at
                # nesting depth 0; it is lifted as the block `{ EXPR }` (on a private copy of the text)
                depth, i2 = 0, b
                while i2 < end:
                    if mask[i2]:
                        c = src[i2]
                        if c in "([{":
                            depth += 1
                        elif c in ")]}":
                            if depth == 0:
                                break
                            depth -= 1
                        elif c == "," and depth == 0:
                            break
                    i2 += 1
                src = src[:b] + "{ " + src[b:i2].rstrip() + " }" + src[i2:]
                mask = rscan.code_mask(src)
            end = rscan.match_brace(src, mask, b) + 1
            # `$x` in //@expect, //@sig and the contract stands for the closure's own parameter name
            # (`$y`, `$z`: its second and third parameter)
            names = [hm.group(1)] + re.findall(r",\s*(\w+)", hm.group(2) or "")
            for var, xname in zip(("$x", "$y", "$z"), names):
                blk["expect"] = [e.replace(var, xname) for e in blk["expect"]]
                blk["sig"] = blk["sig"].replace(var, xname) if blk["sig"] else blk["sig"]
                blk["contract"] = [c.replace(var, xname) for c in blk["contract"]]
                blk["entry"] = [c.replace(var, xname) for c in blk.get("entry", [])]
                for k in blk["loop"]:
                    blk["loop"][k] = [c.replace(var, xname) for c in blk["loop"][k]]
        real_sig = rscan.norm(src[sig_start:b])
        if blk["expect"] and real_sig not in [rscan.norm(e) for e in blk["expect"]]:
            raise Undecided(f"lost anchor: signature of {kv['item']} in {kv['file']} is `{real_sig}`, unit expects `{' | '.join(rscan.norm(e) for e in blk['expect'])}`")
        first_line = len(out) + 1
        out.append(f"// ---- extracted from {kv['file']}:{rscan.line_of(src, sig_start)} ({kv['item']}" + (f" in {kv['within']}" if kv.get("within") else "") + ")")
        for a in blk["attr"]:
            out.append(a)
        if kind == "fn" and src[b] == "{":
            body = src[b:end]
            # `//@bind NAME regex`: group 1 of the regex in the real body (a local's name) is what `$NAME`
            # stands for in the contract and loop-invariant lines, so that renaming the local is harmless
            for bname, brx in blk.get("bind", []):
                bm = re.search(brx, body)
                if not bm:
                    raise Undecided(f"lost anchor: //@bind {bname} /{brx}/ does not match in {kv['item']} of {kv['file']}")
                bval = next(g for g in bm.groups() if g is not None)  # alternatives may use different groups
                blk["contract"] = [c.replace("$" + bname, bval) for c in blk["contract"]]
                blk["rules"] = [c.replace("$" + bname, bval) for c in blk["rules"]]
                for k in blk["loop"]:
                    blk["loop"][k] = [c.replace("$" + bname, bval) for c in blk["loop"][k]]
                counts["X1.bind"] = counts.get("X1.bind", 0) + 1
            for r in blk["rules"]:
                body = apply_rule(body, r, counts)
            if blk["sig"] and "Tracked(w)" in blk["sig"]:
                for r in default_rules:
                    rid, rest = r.split(None, 1)
                    body = apply_rule(body, f"{rid} * {rest}", counts)
            bmask = rscan.code_mask(body)
            lps = rscan.loops(body, bmask)
            if blk["loops"] is not None and len(lps) != blk["loops"]:
                raise Undecided(f"lost anchor: {kv['item']} in {kv['file']} has {len(lps)} loop(s), unit expects {blk['loops']}")
            inserts = []
            for k, lines in blk["loop"].items():
                if k < 1 or k > len(lps):
                    raise Undecided(f"lost anchor: loop {k} of {kv['item']} not found")
                inserts.append((lps[k - 1][1], "\n" + "\n".join(lines) + "\n"))
                counts["X1.loop-invariant"] = counts.get("X1.loop-invariant", 0) + 1
            if blk.get("entry"):
                inserts.append((1, "\n" + "\n".join(blk["entry"]) + "\n"))
                counts["X1.entry-ghost"] = counts.get("X1.entry-ghost", 0) + 1
            for pos, txt in sorted(inserts, reverse=True):
                body = body[:pos] + txt + body[pos:]
            sig = blk["sig"] if blk["sig"] else src[sig_start:b].rstrip()
            if blk["sig"]:
                counts["X1.signature"] = counts.get("X1.signature", 0) + 1
            sig_line = len(out) + 1
            out.append(sig)
            for l in blk["contract"]:
                out.append(l)
            if blk["contract"]:
                counts["X1.contract"] = counts.get("X1.contract", 0) + 1
            body_first = len(out) + 1
            body_lines = body.split("\n")
            out.extend(body_lines)
            probes.append({"id": kv["id"], "body_first_line": body_first, "body_n_lines": len(body_lines)})
            fn_props[sig_line] = (kv["id"], kv.get("props", ""))
        else:
            text = src[sig_start:end] if not blk["keepattrs"] else src[item_start:end]
            if blk["sig"]:
                text = blk["sig"] + " " + src[b:end]
                counts["X1.signature"] = counts.get("X1.signature", 0) + 1
            for r in blk["rules"]:
                text = apply_rule(text, r, counts)
            if not blk["keepattrs"]:
                text, n = strip_attrs(text)
                counts["X2.attrs-dropped"] = counts.get("X2.attrs-dropped", 0) + n
            for l in blk["contract"]:
                out.append(l)
            out.extend(text.split("\n"))
        functions.append(
            {
                "function": (kv.get("within", "") + " :: " if kv.get("within") else "") + kv["item"],
                "where": f"{kv['file']}:{rscan.line_of(src, sig_start)}-{rscan.line_of(src, end)}",
                "sha256_of_text_read": sha256_text(src[sig_start:end])[:16],
                "engine": f"verus (unit {unit}, extracted this run)",
                "id": kv["id"],
            }
        )
    text = "\n".join(out)
    return {"text": text, "functions": functions, "rules": counts, "fn_props": fn_props, "probes": probes, "template": tpath}


def index_labels(text):
    """line -> (props, label); plus function ranges."""
    labels = {}
    for n, line in enumerate(text.split("\n"), 1):
        m = LABEL_RE.search(line)
        if m:
            labels[n] = (m.group(1).split("+"), m.group(2).strip())
    return labels


FN_RE = re.compile(r"^\s*(?:pub(?:\([^)]*\))?\s+)?(?:(?:open|closed|broadcast|uninterp)\s+)*(proof\s+|spec\s+|exec\s+)?(?:const\s+)?fn\s+(\w+)")


def fn_ranges(text):
    """[(first_line, last_line, name, mode)] for every fn item in the generated file."""
    mask = rscan.code_mask(text)
    res = []
    offs = [0]
    for l in text.split("\n"):
        offs.append(offs[-1] + len(l) + 1)
    for n, line in enumerate(text.split("\n"), 1):
        m = FN_RE.match(line)
        if not m or not mask[offs[n - 1] + line.index("fn")]:
            continue
        try:
            b = rscan.body_open(text, mask, offs[n - 1] + m.end())
        except ValueError:
            continue
        if text[b] == ";":
            e = b
        else:
            e = rscan.match_brace(text, mask, b)
        res.append((n, rscan.line_of(text, e), m.group(2), (m.group(1) or "exec").strip()))
    return res


def run_verus(path, seed=None, rlimit=None, timeout=600, extra=None):
    cmd = ["verus", path, "--output-json", "--time", "--error-format=json", "--multiple-errors", "64"]
    if seed:
        cmd += ["--smt-option", f"smt.random_seed={seed}"]
    if rlimit:
        cmd += ["--rlimit", str(rlimit)]
    cmd += extra or []
    # stdout: one JSON document; stderr: rustc-style JSON diagnostics (one per line).
    import subprocess
    import time as _t

    t0 = _t.time()
    try:
        p = subprocess.run(cmd, cwd=os.path.dirname(path), capture_output=True, text=True, timeout=timeout)
    except subprocess.TimeoutExpired:
        raise Undecided(f"verus timed out after {timeout}s on {path}")
    wall = _t.time() - t0
    summary = None
    try:
        summary = json.loads(p.stdout)
    except Exception:  # noqa: BLE001
        pass
    diags = []
    raw_err = []
    for l in p.stderr.splitlines():
        l = l.strip()
        if l.startswith("{"):
            try:
                diags.append(json.loads(l))
                continue
            except Exception:  # noqa: BLE001
                pass
        if l:
            raw_err.append(l)
    return {"cmd": " ".join(cmd), "rc": p.returncode, "summary": summary, "diags": diags, "raw_err": raw_err, "wall_s": wall}


def classify_diags(res, text, labels, ranges, owned=()):
    """Map Verus errors to obligations. Returns (failed {key: [msgs]}, hard_errors [msgs]).
    Only spans inside the generated file are used (a postcondition inherited from a vstd trait
    spec has its primary span in vstd; the span 'at the end of the function body' is ours)."""
    failed, hard = {}, []
    gen_name = os.path.basename(res["cmd"].split()[1])
    for d in res["diags"]:
        if d.get("level") != "error":
            continue
        msg = d.get("message", "")
        if msg.startswith("aborting due to"):
            continue
        spans = [s for s in d.get("spans", []) if os.path.basename(s.get("file_name", "")) == gen_name]
        foreign = [s for s in d.get("spans", []) if s not in spans]
        # an error inside a macro expansion (`panic!`, `unreachable!`) has its span in the macro's
        # own file; the call site in the generated file is in the span's expansion chain
        for s0 in foreign:
            e = s0.get("expansion")
            while e and e.get("span"):
                if os.path.basename(e["span"].get("file_name", "")) == gen_name:
                    cs = dict(e["span"])
                    cs["is_primary"] = s0.get("is_primary", False)
                    spans.append(cs)
                    break
                e = e["span"].get("expansion")
        prim = [s for s in spans if s.get("is_primary")]
        ordered = prim + [s for s in spans if not s.get("is_primary")]
        if not any(msg.startswith(v) or v in msg for v in VERIFICATION_ERRORS):
            where = f" at generated line {ordered[0]['line_start']}: {ordered[0]['text'][0]['text'].strip() if ordered[0].get('text') else ''}" if ordered else ""
            hard.append(msg + where)
            continue
        # a labelled span wins (primary first), else the enclosing function
        key = None
        for s in ordered:
            # a clause may span lines (primary); a secondary span such as "at the end of the
            # function body" covers the whole body and must not be searched for labels
            for ln in range(s["line_start"], (s["line_end"] if s.get("is_primary") else s["line_start"]) + 1):
                if ln in labels:
                    key = ("label", ln)
                    break
            if key:
                break
        if not key and ordered:
            # the enclosing function of the first span that lies in an extracted (owned) function
            # wins: a postcondition inherited from a trait declaration has its primary span on the
            # trait's `ensures` line and only a secondary span ("at the end of the function
            # body") in the impl that failed to establish it
            cands = []
            for sp in ordered:
                ln = sp["line_start"]
                for (a, b, name, mode) in ranges:
                    if a <= ln <= b:
                        cands.append(a)
                        break
            own = [a for a in cands if a in owned]
            if own or cands:
                key = ("fn", (own or cands)[0])
        if not key:
            hard.append(msg + " (no span inside the generated file)")
            continue
        desc = msg
        if ordered and ordered[0].get("text"):
            desc += f" @gen:{ordered[0]['line_start']}: " + ordered[0]["text"][0]["text"].strip()
        for s in foreign:
            desc += f" [{s.get('label') or 'see'} {s.get('file_name')}:{s.get('line_start')}]"
        failed.setdefault(key, []).append(desc)
    return failed, hard


def scan_assumptions(text):
    """Mechanical scan for everything that is assumed rather than proved: every external_body /
    assume_specification / assume / admit / uninterp item, named with its enclosing impl."""
    out = []
    lines = text.split("\n")
    impl_stack = []  # (indent, header)
    for n, l in enumerate(lines, 1):
        s = l.strip()
        indent = len(l) - len(l.lstrip())
        m = re.match(r"(?:pub\s+)?(?:unsafe\s+)?impl(?:<[^>]*>)?\s+(.*?)\s*(?:where\b.*)?\{?$", s)
        if m and not s.startswith("//"):
            while impl_stack and impl_stack[-1][0] >= indent:
                impl_stack.pop()
            impl_stack.append((indent, m.group(1).strip()))
        elif s == "}" and impl_stack and impl_stack[-1][0] == indent:
            impl_stack.pop()
        if s.startswith("//"):
            continue
        if "external_body" in s or "assume_specification" in s or re.search(r"\bassume\s*\(", s) or re.search(r"\badmit\s*\(", s) or "external_type_specification" in s or "#[verifier::external" in s or ("uninterp" in s and "spec fn" in s):
            what = "uninterpreted spec fn" if "uninterp" in s else ("assume_specification" if "assume_specification" in s else ("external_body" if "external" in s else "assume/admit"))
            nxt = ""
            if "assume_specification" in s:
                mm = re.search(r"\[\s*([^\]]+?)\s*\]", s)
                nxt = mm.group(1) if mm else s[:80]
            else:
                for k in range(n - 1, min(n + 6, len(lines))):
                    mm = re.search(r"\b(fn|struct|enum)\s+(\w+)", lines[k])
                    if mm:
                        owner = impl_stack[-1][1] + "::" if (impl_stack and mm.group(1) == "fn") else ""
                        nxt = f"{mm.group(1)} {owner}{mm.group(2)}"
                        break
            out.append(f"{what}: {nxt}".strip())
    return out


def run_unit(unit, pid, tier, seed):
    gen = generate(unit)
    text = gen["text"]
    gdir = os.path.join(WORK, "verus", unit)
    gpath = os.path.join(gdir, f"{unit}_gen.rs")
    write(gpath, text)
    labels = index_labels(text)
    ranges = fn_ranges(text)
    if not labels:
        raise Undecided(f"verus unit {unit}: no labelled obligation generated")
    res = run_verus(gpath, seed=None)
    owned = set(gen["fn_props"].keys())
    failed, hard = classify_diags(res, text, labels, ranges, owned)
    if hard or res["summary"] is None:
        raise Undecided(
            f"verus unit {unit}: the generated file does not type-check / tool error (unsupported construct or lost anchor), not a verification verdict:\n  "
            + "\n  ".join((hard or res["raw_err"])[:6])
        )
    problems = []
    vr = res["summary"].get("verification-results", {})
    # ---- vacuity probe: every extracted exec fn must be able to reach its first statement
    probe_ok = vacuity_probe(unit, gen, gpath)
    problems += probe_ok
    seeds_tried = [0]
    if tier == "thorough":
        for s in (seed * 3 + 1, seed * 3 + 2, seed * 3 + 3):
            r2 = run_verus(gpath, seed=s)
            f2, h2 = classify_diags(r2, text, labels, ranges, owned)
            seeds_tried.append(s)
            if h2:
                problems.append(f"seed {s}: tool error {h2[:2]}")
            for k, v in f2.items():
                if k not in failed:
                    # unstable: fails under one seed only -> undecided, not a violation
                    problems.append(f"unstable under smt.random_seed={s}: {k}: {v[0]}")
            res["wall_s"] += r2["wall_s"]
    obligations = []
    smt_s = (res["summary"].get("times-ms", {}).get("smt", {}) or {}).get("total", 0) / 1000.0 if res["summary"] else 0.0
    backend = "verus-0.2026.09.13/z3"
    # labelled clauses
    for ln, (ps, lab) in sorted(labels.items()):
        if pid not in ps:
            continue
        bad = ("label", ln) in failed
        obligations.append(
            {
                "id": f"verus:{unit}:{lab}",
                "label": lab,
                "engine": "verus",
                "unit": unit,
                "backend": backend,
                "kind": "clause",
                "status": "FAILED" if bad else "VERIFIED",
                "ok": not bad,
                "bad": bad,
                "detail": {"clause": text.split("\n")[ln - 1].split("//")[0].strip(), "errors": failed.get(("label", ln), [])},
                "gen_line": ln,
            }
        )
    # function-level obligations (callee preconditions, overflow, unlabelled asserts, and
    # postconditions inherited from a vstd trait spec such as From::from == from_spec)
    for (a, b, name, mode) in ranges:
        ps = None
        fid = None
        for sl, (xid, props_s) in gen["fn_props"].items():
            if a == sl:
                ps = props_s.split("+") if props_s else []
                fid = xid
        lab_here = [labels[l] for l in range(a, b + 1) if l in labels]
        if ps is None:
            # static (template) function: belongs to the properties of the labels inside it
            ps = sorted({p for (pp, _) in lab_here for p in pp})
            if mode == "spec":
                continue
        if pid not in ps:
            continue
        # do not count external_body stubs as proved
        head = "\n".join(text.split("\n")[max(0, a - 3) : a])
        if "external_body" in head:
            continue
        bad = ("fn", a) in failed
        flabel = f"{fid or name}/body"
        obligations.append(
            {
                "id": f"verus:{unit}:{flabel}",
                "label": flabel,
                "engine": "verus",
                "unit": unit,
                "backend": backend,
                "kind": "function-body (callee preconditions, panics, overflow, unlabelled asserts, inherited trait postconditions)",
                "status": "FAILED" if bad else "VERIFIED",
                "ok": not bad,
                "bad": bad,
                "detail": {"errors": failed.get(("fn", a), [])},
                "gen_line": a,
            }
        )
    # a verification error inside a function that no property of this unit owns would be lost:
    # every function with a failure must be owned by some property
    all_owned_lines = set(gen["fn_props"].keys())
    for k in failed:
        if k[0] == "fn" and k[1] not in all_owned_lines:
            lab_in = [labels[l] for (a2, b2, n2, m2) in ranges if a2 == k[1] for l in range(a2, b2 + 1) if l in labels]
            if not lab_in:
                problems.append(f"verification error in unowned function at generated line {k[1]}: {failed[k][0]}")
    return {
        "engine": "verus",
        "unit": unit,
        "obligations": obligations,
        "problems": problems,
        "functions": gen["functions"],
        "extraction_rules": gen["rules"],
        "assumptions": [f"[{unit}] {a}" for a in scan_assumptions(text)],
        "trusted_base": ["Verus 0.2026.09.13 + Z3 (VC generation and SMT)", "rustc front end used by Verus"],
        "solver_time_s": smt_s,
        "cmd": res["cmd"],
        "wall_s": res["wall_s"],
        "generated": gpath,
        "verified_count": vr.get("verified"),
        "error_count": vr.get("errors"),
        "seeds": seeds_tried,
        "diag_tail": [d.get("rendered", d.get("message", "")) for d in res["diags"] if d.get("level") == "error"][:10],
    }


def _exit_probe_line(body_lines):
    """0-based index (within body_lines) of the line AFTER which an exit probe can be inserted:
    the last line at brace depth 1 that ends a statement (`;`) or a nested block (`}`), i.e. just
    before the tail expression or the closing brace. None if the body is one expression."""
    text = "\n".join(body_lines)
    mask = rscan.code_mask(text)
    depth = 0
    pos = 0
    best = None
    in_return = False
    for i, line in enumerate(body_lines):
        code0 = "".join(ch for j, ch in enumerate(line) if mask[pos + j]).strip()
        if depth == 1 and re.match(r"return\b", code0):
            in_return = True  # a trailing `return x;` is the function's exit: probe BEFORE it
        for j, ch in enumerate(line):
            if mask[pos + j]:
                if ch in "{([":
                    depth += 1
                elif ch in "})]":
                    depth -= 1
        code = "".join(ch for j, ch in enumerate(line) if mask[pos + j]).rstrip()
        # only `;` ends a statement for sure: a `}` at depth 1 may close the tail expression
        if depth == 1 and code and code.endswith(";"):
            if in_return:
                in_return = False
            else:
                best = i
        pos += len(line) + 1
    return best


def vacuity_probe(unit, gen, gpath):
    """Second run: `assert(false)` as FIRST statement of every extracted exec function must fail
    (else its precondition or the preamble is contradictory), and `assert(false)` placed after
    its LAST statement - just before the tail expression / closing brace - must fail too (else
    some assumed callee contract on the way is contradictory and everything after it verifies
    vacuously). Functions whose end is unreachable by design are listed in the unit as
    `//@@no-exit-probe <id>`."""
    lines = gen["text"].split("\n")
    skip_exit = set(re.findall(r"//@@no-exit-probe\s+(\S+)", gen["text"]))
    entry, exit_ = {}, {}
    inserts = []  # (0-based line index after which to insert, text, kind, id)
    for p in gen["probes"]:
        ln = p["body_first_line"]  # 1-based line holding the body's opening '{'
        l = lines[ln - 1]
        if not l.lstrip().startswith("{"):
            continue
        body = lines[ln - 1 : ln - 1 + p["body_n_lines"]]
        k = _exit_probe_line(body)
        if k is not None and k > 0 and p["id"] not in skip_exit:
            inserts.append((ln - 1 + k, "proof { assert(false); } /*EXIT-PROBE*/", "exit", p["id"]))
        inserts.append((ln - 1, None, "entry", p["id"]))
    if not inserts:
        return []
    # Two separate runs: after a failed assert Verus assumes it, so an entry probe would make the
    # exit probe of the same function vacuously true.
    problems = []
    for which in ("entry", "exit"):
        out = list(lines)
        for idx, txt, kind, pid_ in sorted([t for t in inserts if t[2] == which], key=lambda t: -t[0]):
            if kind == "entry":
                l = out[idx]
                j = l.index("{")
                out[idx] = l[: j + 1] + " proof { assert(false); } /*ENTRY-PROBE:" + pid_ + "*/" + l[j + 1 :]
            else:
                out.insert(idx + 1, txt.replace("EXIT-PROBE", "EXIT-PROBE:" + pid_))
        marks = {}
        for n, l in enumerate(out, 1):
            m = re.search(r"/\*(?:ENTRY|EXIT)-PROBE:([^*]+)\*/", l)
            if m:
                marks[n] = m.group(1)
        if not marks:
            continue
        ppath = gpath.replace("_gen.rs", f"_probe_{which}.rs")
        write(ppath, "\n".join(out))
        res = run_verus(ppath)
        hit = set()
        hard = []
        for d in res["diags"]:
            if d.get("level") != "error":
                continue
            if "assertion failed" in d.get("message", ""):
                for sp in d.get("spans", []):
                    hit.add(sp["line_start"])
            elif not any(v in d.get("message", "") for v in VERIFICATION_ERRORS) and not d.get("message", "").startswith("aborting"):
                hard.append(d.get("message", ""))
        if hard:
            problems.append(f"vacuity probe ({which}): probe file does not type-check: {hard[0][:160]}")
            continue
        where = "at entry of" if which == "entry" else "after the last statement of"
        why = "contradictory requires/preamble?" if which == "entry" else "a contradictory assumed callee contract makes its end unreachable?"
        problems += [f"vacuity probe: assert(false) {where} {i} was not refuted ({why})" for n, i in marks.items() if n not in hit]
    return problems


def replay_record(pid, unit, o):
    return {
        "property": pid,
        "engine": "verus",
        "unit": unit["unit"],
        "obligation": o["label"],
        "clause": o["detail"].get("clause"),
        "concrete_input_found": False,
        "note": "Verus gives no counterexample: no-failing-input-found. The obligation below was discharged on the baseline tree and is refuted on this one.",
        "generated_file": unit["generated"],
        "verifier_cmd": unit["cmd"],
        "verifier_errors": o["detail"].get("errors"),
        "verifier_output": unit.get("diag_tail"),
        "functions_read": unit["functions"],
    }


def replay(rep, path):
    """Re-generate the unit from /repo's current tree and re-check the recorded obligation."""
    from .common import EXIT_OK, EXIT_UNDECIDED, EXIT_VIOLATION, log

    try:
        u = run_unit(rep["unit"], rep["property"], "quick", 0)
    except Undecided as e:
        log(f"UNDECIDED: {e}")
        return EXIT_UNDECIDED
    for o in u["obligations"]:
        if o["label"] == rep["obligation"]:
            log(f"obligation {o['id']}: {o['status']}")
            for e in o["detail"].get("errors", []):
                log("  " + e)
            if o["bad"]:
                log(f"VIOLATION property={rep['property']} replay={path} no-failing-input-found")
                return EXIT_VIOLATION
            return EXIT_OK
    log("obligation no longer generated")
    return EXIT_UNDECIDED
