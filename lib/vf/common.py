"""Shared paths, process helpers and evidence writer for /verif/bin/check."""
import hashlib
import json
import os
import re
import resource
import signal
import subprocess
import sys
import time

VERIF = os.environ.get("VERIF_HOME", "/verif")  # VERIF_HOME: developer override (frozen snapshot for batch evaluation)
# VERIF_REPO / VERIF_WORK are developer overrides (evaluating a seeded change in a scratch
# worktree while /repo stays free); the registered checks never set them.
REPO = os.environ.get("VERIF_REPO", "/repo")
WORK = os.environ.get("VERIF_WORK", os.path.join(VERIF, "work"))
REPLAY_DIR = os.path.join(VERIF, "replay")
EVIDENCE_DIR = os.path.join(VERIF, "evidence")
KNOWN_FINDINGS = os.path.join(VERIF, "known_findings.txt")
BASELINE = os.path.join(VERIF, "baseline_obligations.json")

EXIT_OK, EXIT_VIOLATION, EXIT_UNDECIDED = 0, 1, 2


class Undecided(Exception):
    """Raised when a tool limit, crash, lost anchor or vacuity guard stops a decision.
    Never turned into a VIOLATION line."""


def base_env():
    env = dict(os.environ)
    env.update(
        {
            "CARGO_NET_OFFLINE": "true",
            # /repo/rust-toolchain.toml would make rustup try to download components
            "RUSTUP_TOOLCHAIN": "stable-x86_64-unknown-linux-gnu",
            "CARGO_TERM_COLOR": "never",
        }
    )
    return env


def _limits(mem_gb):
    def f():
        os.setsid()
        if mem_gb:
            b = int(mem_gb * (1 << 30))
            resource.setrlimit(resource.RLIMIT_AS, (b, b))
    return f


def run(cmd, cwd=None, env=None, timeout=None, mem_gb=None):
    """Run cmd; returns (rc, output, wall_s, timed_out). Kills the whole process group on timeout."""
    t0 = time.time()
    p = subprocess.Popen(
        cmd,
        cwd=cwd,
        env=env or base_env(),
        stdout=subprocess.PIPE,
        stderr=subprocess.STDOUT,
        text=True,
        errors="replace",
        preexec_fn=_limits(mem_gb),
    )
    timed_out = False
    try:
        out, _ = p.communicate(timeout=timeout)
    except subprocess.TimeoutExpired:
        timed_out = True
        try:
            os.killpg(p.pid, signal.SIGKILL)
        except ProcessLookupError:
            pass
        out, _ = p.communicate()
    return p.returncode, out, time.time() - t0, timed_out


def sha256_text(s):
    return hashlib.sha256(s.encode()).hexdigest()


def read(path):
    with open(path) as f:
        return f.read()


def write(path, text):
    os.makedirs(os.path.dirname(path), exist_ok=True)
    with open(path, "w") as f:
        f.write(text)


def load_json(path, default=None):
    if not os.path.exists(path):
        return default
    with open(path) as f:
        return json.load(f)


def norm_ws(s):
    return re.sub(r"\s+", " ", s).strip()


def repo_head():
    rc, out, _, _ = run(["git", "-C", REPO, "rev-parse", "HEAD"])
    return out.strip()


def log(msg):
    print(msg, flush=True)


def known_findings(pid):
    """Parse known_findings.txt: returns {obligation id: what} for `known:` lines of property pid."""
    out = {}
    if not os.path.exists(KNOWN_FINDINGS):
        return out
    for line in read(KNOWN_FINDINGS).splitlines():
        line = line.strip()
        m = re.match(r"known:\s+property=(\S+)\s+obligation=(.+?)\s+::\s+(.*)$", line)
        if m and m.group(1) == pid:
            out[m.group(2).strip()] = m.group(3).strip()
    return out
