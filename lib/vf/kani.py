"""Kani engine: build the real crate with cfg(kani), run harnesses in parallel, parse every
check, classify obligations, fetch concrete counterexamples and replay them natively."""
import concurrent.futures
import os
import re
import shutil

from .common import (
    REPO,
    VERIF,
    WORK,
    Undecided,
    base_env,
    norm_ws,
    read,
    run,
    write,
)

TARGET = os.path.join(WORK, "kani-target")
PLAYBACK_TARGET = os.path.join(WORK, "kani-playback-target")
PLAYBACK_DIR = os.path.join(VERIF, "work", "playback")  # the harness modules include!() this absolute path

# crate -> build configuration. Harness sources live in /verif/kani/<crate>.rs and are compiled
# inside the real crate through the cfg(kani) `#[path]` hook in its lib.rs.
CRATES = {
    "crux_time": {"dir": "crux_time", "features": ["chrono"]},
    "crux_core": {"dir": "crux_core", "features": []},
    "crux_kv": {"dir": "crux_kv", "features": []},
}

KANI_FLAGS = ["-Z", "function-contracts", "-Z", "stubbing", "--no-assert-contracts"]

LABEL_RE = re.compile(r'"((?:C\d\d/)[^"\n]+)"')
HARNESS_RE = re.compile(
    r"((?:^[ \t]*#\[[^\n]*\]\s*(?://[^\n]*)?\n)+)[ \t]*(?:pub )?fn\s+(\w+)\s*\(\s*\)", re.M
)


def harness_file(crate):
    return os.path.join(VERIF, "kani", crate + ".rs")


def discover(crate):
    """Parse the harness file: harness name -> {labels, kind, contract_target, bounded, body}."""
    src = read(harness_file(crate))
    out = {}
    for m in HARNESS_RE.finditer(src):
        attrs, name = m.group(1), m.group(2)
        if "kani::proof" not in attrs:
            continue
        # body: from the match end to the closing brace at column 0
        start = src.index("{", m.end())
        end = src.index("\n}\n", start)
        body = src[start : end + 2]
        target = None
        mt = re.search(r"kani::proof_for_contract\((.+?)\)\]", attrs)
        if mt:
            target = mt.group(1).strip()
        unwind = re.search(r"kani::unwind\((\d+)\)", attrs)
        out[name] = {
            "labels": sorted(set(LABEL_RE.findall(body))),
            "contract_target": target,
            "unwind": int(unwind.group(1)) if unwind else None,
            "bounded": (re.search(r"BOUNDED:?\s*([^\n]*)", attrs).group(1).strip() or True) if "BOUNDED" in attrs else False,
            "thorough_only": "THOROUGH" in attrs,
            # OPTIONAL: a counterexample finder on code CBMC may not finish on; a timeout is
            # reported as "not finished", not as undecided
            "optional": "OPTIONAL" in attrs,
            "timeout": int(re.search(r"TIMEOUT=(\d+)", attrs).group(1)) if re.search(r"TIMEOUT=(\d+)", attrs) else None,
            "pinned_solver": (re.search(r"kani::solver\((\w+)\)", attrs) or [None, None])[1],
            "body": body,
            "stubs": re.findall(r"kani::stub(?:_verified)?\(([^)]*)\)", attrs),
        }
    return out


def properties_of(h):
    return sorted({l.split("/")[0] for l in h["labels"]})


def _features_args(crate):
    f = CRATES[crate]["features"]
    return ["--features", ",".join(f)] if f else []


def _env(target=TARGET):
    env = base_env()
    env["CARGO_TARGET_DIR"] = target
    return env


def prepare_playback_file(crate, text=""):
    write(os.path.join(PLAYBACK_DIR, crate + ".rs"), text)


def build(crate, timeout=1800):
    """Compile the crate and all harnesses once (cargo lock is taken here, not in the parallel phase)."""
    prepare_playback_file(crate)
    cmd = ["cargo", "kani"] + KANI_FLAGS + _features_args(crate) + ["--only-codegen"]
    rc, out, wall, to = run(cmd, cwd=os.path.join(REPO, CRATES[crate]["dir"]), env=_env(), timeout=timeout)
    if to:
        raise Undecided(f"kani build of {crate} timed out after {timeout}s")
    if rc != 0:
        raise Undecided(f"kani build of {crate} failed (rc={rc}); the harnesses or the crate do not compile under cfg(kani):\n" + tail_errors(out))
    return wall


def tail_errors(out, n=60):
    lines = [l for l in out.splitlines() if l.strip()]
    errs = [i for i, l in enumerate(lines) if l.startswith("error")]
    if errs:
        i = errs[0]
        return "\n".join(lines[i : i + n])
    return "\n".join(lines[-n:])


CHECK_RE = re.compile(
    r"^Check (\d+): ([^\n]+)\n\t - Status: (\w+)\n\t - Description: \"(.*?)\"\n(?:\t - Location: ([^\n]*)\n)?",
    re.M | re.S,
)


def parse(out):
    checks = []
    for m in CHECK_RE.finditer(out):
        checks.append(
            {
                "n": int(m.group(1)),
                "name": m.group(2),
                "status": m.group(3),
                "description": norm_ws(m.group(4)).strip('"'),  # assert!(c, "msg") arrives as ""msg""
                "location": (m.group(5) or "").strip(),
            }
        )
    verdict = None
    mv = re.search(r"^VERIFICATION:- (\w+)", out, re.M)
    if mv:
        verdict = mv.group(1)
    mt = re.search(r"^Verification Time: ([\d.]+)s", out, re.M)
    vt = float(mt.group(1)) if mt else None
    stubs = re.findall(r"^\s*- Stub: (.*)$", out, re.M)
    return checks, verdict, vt, stubs


def run_harness(crate, name, timeout, extra=None, solver=None):
    cmd = (
        ["cargo", "kani"]
        + KANI_FLAGS
        + _features_args(crate)
        + ["--exact", "--harness", f"verif_kani::{name}"]
        + (["--solver", solver] if solver else [])
        + (extra or [])
    )
    rc, out, wall, to = run(
        cmd, cwd=os.path.join(REPO, CRATES[crate]["dir"]), env=_env(), timeout=timeout, mem_gb=28
    )
    return {"cmd": " ".join(cmd), "rc": rc, "out": out, "wall_s": wall, "timed_out": to}


def classify(name, h, res):
    """Turn one harness run into obligations.
    Returns dict(status=ok|violation|undecided, obligations=[...], reason=...)."""
    r = {"harness": name, "cmd": res["cmd"], "wall_s": round(res["wall_s"], 2), "obligations": [], "status": "ok", "reason": ""}
    if res["timed_out"]:
        r.update(status="undecided", reason=f"timeout after {res['wall_s']:.0f}s")
        return r
    checks, verdict, vt, stubs = parse(res["out"])
    r["solver_time_s"] = vt
    r["stubs"] = stubs
    r["n_checks"] = len(checks)
    if verdict is None or not checks:
        r.update(status="undecided", reason="no verification result (tool error):\n" + tail_errors(res["out"], 25))
        return r
    # parser self-check: every check Kani counted must have been parsed
    ms = re.search(r"\*\* (\d+) of (\d+) failed", res["out"])
    mc = re.search(r"\*\* (\d+) of (\d+) cover properties satisfied", res["out"])
    expected_n = (int(ms.group(2)) if ms else 0) + (int(mc.group(2)) if mc else 0)
    if ms and expected_n != len(checks):
        r.update(status="undecided", reason=f"parser self-check failed: Kani reports {expected_n} checks, parsed {len(checks)}")
        return r
    n_failed_reported = int(ms.group(1)) if ms else None
    if n_failed_reported is not None and n_failed_reported != sum(1 for c in checks if c["status"] == "FAILURE"):
        r.update(status="undecided", reason="parser self-check failed: FAILURE count differs from Kani's summary")
        return r
    reject = name.endswith("_reject")
    obls = []
    other_fail, other_n, undet = [], 0, []
    tolerated = []
    seen_labels = set()
    for c in checks:
        d = c["description"]
        st = c["status"]
        if re.match(r"C\d\d/", d):
            seen_labels.add(d)
            if d.endswith("/returned-normally"):
                kind = "forbidden-cover"
                ok = st in ("UNSATISFIABLE", "UNREACHABLE")
                bad = st == "SATISFIED"
            elif d.endswith("/reached"):
                kind = "vacuity-cover"
                ok = st == "SATISFIED"
                bad = False  # unreachable guard = vacuous = undecided, unless something failed
            elif ".cover." in c["name"]:
                kind = "witness-cover"
                ok = st == "SATISFIED"
                bad = st in ("UNSATISFIABLE", "UNREACHABLE")
            else:
                kind = "assert"
                ok = st in ("SUCCESS",)
                bad = st == "FAILURE"
            obls.append({"label": d, "kind": kind, "status": st, "ok": ok, "bad": bad, "check": c["name"]})
        elif d.startswith("|") and ".assertion." in c["name"]:
            # postcondition clause of an in-place contract: description is the closure text
            obls.append({"label": f"{name}/ensures: {d}", "kind": "ensures", "status": st, "ok": st == "SUCCESS", "bad": st == "FAILURE", "check": c["name"], "clause": d})
        else:
            other_n += 1
            if st == "FAILURE":
                explicit_panic = ".assertion." in c["name"] and "verif/kani" not in c["location"]
                if reject and explicit_panic:
                    tolerated.append(c)
                else:
                    other_fail.append(c)
            elif st in ("UNDETERMINED",):
                undet.append(c)
    # one lumped safety obligation per harness: no panic, overflow, UB or unwinding failure
    # anywhere in the code reached (apart from the explicit rejections a *_reject harness is about)
    obls.append(
        {
            "label": f"{name}/no-other-failure",
            "kind": "safety",
            "status": "FAILURE" if other_fail else "SUCCESS",
            "ok": not other_fail and not undet,
            "bad": bool(other_fail),
            "n_generated_checks": other_n,
            "failed_checks": [f"{c['name']}: {c['description']} @ {c['location']}" for c in other_fail][:10],
            "tolerated_explicit_panics": [f"{c['name']}: {c['description']} @ {c['location']}" for c in tolerated][:10],
        }
    )
    r["obligations"] = obls
    missing = [l for l in h["labels"] if l not in seen_labels]
    if any(o["bad"] for o in obls):
        r["status"] = "violation"
        r["reason"] = "; ".join(o["label"] + " -> " + o["status"] for o in obls if o["bad"])
    elif undet or missing or any(not o["ok"] for o in obls):
        r["status"] = "undecided"
        why = []
        if undet:
            why.append("UNDETERMINED checks: " + ", ".join(c["name"] for c in undet[:5]))
        if missing:
            why.append("labels not found in output: " + ", ".join(missing))
        why += [o["label"] + " -> " + o["status"] for o in obls if not o["ok"]]
        r["reason"] = "; ".join(why)
    return r


def run_many(crate, names, harnesses, timeout, jobs=14, solver=None, quick=False):
    results = {}
    with concurrent.futures.ThreadPoolExecutor(max_workers=jobs) as ex:
        # a harness may carry its own (shorter) budget for the quick tier: `// ... TIMEOUT=<s>`
        def budget(n):
            t = harnesses[n].get("timeout")
            return min(timeout, t) if (quick and t) else timeout
        futs = {ex.submit(run_harness, crate, n, budget(n), None, solver): n for n in names}
        for f in concurrent.futures.as_completed(futs):
            n = futs[f]
            res = f.result()
            results[n] = (classify(n, harnesses[n], res), res)
    return results


# ---------------------------------------------------------------- counterexamples and replay

TEST_RE = re.compile(
    r"/// Check for `(\w+)`: \"(.*?)\"\n\s*\n#\[test\]\nfn (\w+)\(\) \{\n(.*?)\n\}\n```", re.S
)


def concrete_tests(crate, name, timeout):
    """Re-run a failing harness asking Kani for concrete values. Returns list of
    {kind, description, test_name, source, values}."""
    res = run_harness(crate, name, timeout, extra=["-Z", "concrete-playback", "--concrete-playback=print"])
    tests = []
    for m in TEST_RE.finditer(res["out"]):
        src = f"#[test]\nfn {m.group(3)}() {{\n{m.group(4)}\n}}\n"
        vals = re.findall(r"^\s*// (.*)$", m.group(4), re.M)
        tests.append(
            {
                "kind": m.group(1),
                "description": norm_ws(m.group(2)).strip('"'),
                "test_name": m.group(3),
                "source": src,
                "decoded_values": vals,
            }
        )
    return tests, res


def native_playback(crate, test_source, test_name, timeout=900):
    """Compile the real crate natively (cfg(kani) on, Kani's concrete-playback runtime) with the
    generated test included, and run it. Returns (outcome, output) with outcome in
    {'passed','panicked','error'}."""
    prepare_playback_file(crate, test_source)
    try:
        cmd = (
            ["cargo", "kani", "playback", "-Z", "concrete-playback", "-Z", "function-contracts", "-Z", "stubbing", "--lib"]
            + _features_args(crate)
            + ["--", test_name, "--nocapture"]
        )
        rc, out, wall, to = run(cmd, cwd=os.path.join(REPO, CRATES[crate]["dir"]), env=_env(PLAYBACK_TARGET), timeout=timeout)
    finally:
        prepare_playback_file(crate)
    m = re.search(r"^test \S*" + re.escape(test_name) + r"\S* \.\.\. (\w+)", out, re.M)
    if to or not m:
        m2 = re.search(r"test result: (\w+)\. (\d+) passed; (\d+) failed", out)
        if m2 and int(m2.group(2)) + int(m2.group(3)) == 1:
            return ("passed" if m2.group(2) == "1" else "panicked"), out
        return "error", out
    return ("passed" if m.group(1) == "ok" else "panicked"), out


# -- in-place contract text (read from /repo on every run)

ATTR_RE = re.compile(r"^[ \t]*#\[cfg_attr\(kani, kani::(requires|ensures|modifies)\((.*)\)\)\]\s*$")


def inplace_contracts(crate):
    """Scan the crate's sources for cfg_attr(kani, kani::requires/ensures) blocks.
    Returns list of {file, line, fn, params, impl, requires[], ensures[]}."""
    root = os.path.join(REPO, CRATES[crate]["dir"], "src")
    found = []
    for dp, _, fns in os.walk(root):
        for fn in sorted(fns):
            if not fn.endswith(".rs"):
                continue
            path = os.path.join(dp, fn)
            lines = read(path).splitlines()
            i = 0
            cur_impl = None
            while i < len(lines):
                mi = re.match(r"^impl(?:<[^>]*>)?\s+(.*?)\s*\{", lines[i])
                if mi:
                    cur_impl = mi.group(1)
                if ATTR_RE.match(lines[i]):
                    req, ens, mod = [], [], []
                    start = i
                    while i < len(lines) and (ATTR_RE.match(lines[i]) or lines[i].strip().startswith("#[") or lines[i].strip().startswith("//")):
                        m = ATTR_RE.match(lines[i])
                        if m:
                            {"requires": req, "ensures": ens, "modifies": mod}[m.group(1)].append(m.group(2))
                        i += 1
                    sig = lines[i]
                    j = i
                    while ")" not in sig and j + 1 < len(lines):
                        j += 1
                        sig += " " + lines[j].strip()
                    ms = re.search(r"fn\s+(\w+)\s*(?:<[^>]*>)?\s*\((.*?)\)", sig)
                    if ms:
                        params = []
                        depth = 0
                        cur = ""
                        for ch in ms.group(2):
                            if ch in "<([":
                                depth += 1
                            if ch in ">)]":
                                depth -= 1
                            if ch == "," and depth == 0:
                                params.append(cur)
                                cur = ""
                            else:
                                cur += ch
                        if cur.strip():
                            params.append(cur)
                        pn = [p.split(":")[0].strip() for p in params]
                        found.append(
                            {
                                "file": os.path.relpath(path, REPO),
                                "line": start + 1,
                                "fn": ms.group(1),
                                "impl": cur_impl,
                                "params": pn,
                                "requires": req,
                                "ensures": ens,
                                "modifies": mod,
                            }
                        )
                else:
                    i += 1
    return found


def self_type(impl):
    """'From<std::time::Duration> for Duration' -> 'Duration'; 'Instant' -> 'Instant'"""
    if impl is None:
        return None
    if " for " in impl:
        return impl.split(" for ")[1].strip()
    return impl.strip()


def ensures_replay_test(harness_name, h, contract, clause, concrete_vals_src):
    """Build a native test that evaluates an in-place `ensures` closure on the real function's
    result, for harnesses following the `let _ = call_<x>();` convention (call_<x> returns
    (params..., result))."""
    mcall = re.search(r"(call_\w+)\(\)", h["body"])
    if not mcall or any(p in ("self", "&self", "&mut self", "mut self") for p in contract["params"]):
        return None
    mcl = re.match(r"\|\s*(\w+)\s*(?::[^|]*)?\|\s*(.*)$", clause, re.S)
    if not mcl:
        return None
    rname, body = mcl.group(1), mcl.group(2)
    st = self_type(contract["impl"])
    if st:
        body = re.sub(r"\bSelf\b", st, body)
    pats = ", ".join(contract["params"] + ["__res"])
    tname = f"verif_replay_{harness_name}"
    src = (
        f"#[test]\nfn {tname}() {{\n{concrete_vals_src}\n"
        f"    kani::concrete_playback_run(concrete_vals, || {{\n"
        f"        #[allow(unused_variables)]\n"
        f"        let ({pats}) = {mcall.group(1)}();\n"
        f"        let {rname} = &__res;\n"
        f"        assert!({body}, \"in-place ensures clause violated on the real function\");\n"
        f"    }});\n}}\n"
    )
    return tname, src
