"""A small Rust-aware scanner: skips comments, strings, chars and lifetimes so that braces,
keywords and items can be located in real source text without a parser."""
import re


def code_mask(text):
    """Return a bytearray m with m[i]==1 iff text[i] is code (not inside a comment/string/char)."""
    n = len(text)
    m = bytearray(b"\x01") * n
    i = 0
    while i < n:
        c = text[i]
        if c == "/" and i + 1 < n and text[i + 1] == "/":
            j = text.find("\n", i)
            j = n if j < 0 else j
            for k in range(i, j):
                m[k] = 0
            i = j
        elif c == "/" and i + 1 < n and text[i + 1] == "*":
            depth, j = 1, i + 2
            while j < n and depth:
                if text.startswith("/*", j):
                    depth += 1
                    j += 2
                elif text.startswith("*/", j):
                    depth -= 1
                    j += 2
                else:
                    j += 1
            for k in range(i, j):
                m[k] = 0
            i = j
        elif c == '"' or (c in "rb" and re.match(r'(?:b?r#*"|b")', text[i : i + 8]) and (i == 0 or not (text[i - 1].isalnum() or text[i - 1] == "_"))):
            mm = re.match(r'(b?)(r(#*))?"', text[i:])
            if not mm:
                i += 1
                continue
            start = i
            i += mm.end()
            if mm.group(2):  # raw string
                close = '"' + mm.group(3)
                j = text.find(close, i)
                j = n if j < 0 else j + len(close)
            else:
                j = i
                while j < n and text[j] != '"':
                    j += 2 if text[j] == "\\" else 1
                j += 1
            for k in range(start, min(j, n)):
                m[k] = 0
            i = j
        elif c == "'":
            # char literal or lifetime
            mm = re.match(r"'(\\.[^']*|[^\\'])'", text[i:])
            if mm:
                for k in range(i, i + mm.end()):
                    m[k] = 0
                i += mm.end()
            else:
                i += 1
        else:
            i += 1
    return m


def match_brace(text, mask, open_idx):
    """Index of the brace closing text[open_idx] ('{', '(' or '[')."""
    pairs = {"{": "}", "(": ")", "[": "]"}
    o = text[open_idx]
    c = pairs[o]
    depth = 0
    for i in range(open_idx, len(text)):
        if not mask[i]:
            continue
        if text[i] == o:
            depth += 1
        elif text[i] == c:
            depth -= 1
            if depth == 0:
                return i
    raise ValueError("unbalanced")


def find_code(text, mask, pattern, start=0, end=None):
    """First regex match at or after start whose first char is code."""
    rx = re.compile(pattern)
    pos = start
    end = len(text) if end is None else end
    while True:
        mm = rx.search(text, pos, end)
        if not mm:
            return None
        if mask[mm.start()]:
            return mm
        pos = mm.start() + 1


def depth_at(text, mask, start, idx):
    d = 0
    for i in range(start, idx):
        if mask[i]:
            if text[i] == "{":
                d += 1
            elif text[i] == "}":
                d -= 1
    return d


def body_open(text, mask, start):
    """Index of the '{' opening the body of the item/loop header starting at `start`
    (first '{' at paren/bracket/angle-agnostic depth 0), or of ';' if the item has no body."""
    d = 0
    i = start
    while i < len(text):
        if mask[i]:
            ch = text[i]
            if ch in "([":
                d += 1
            elif ch in ")]":
                d -= 1
            elif ch == "{" and d == 0:
                return i
            elif ch == ";" and d == 0:
                return i
        i += 1
    raise ValueError("no body")


def line_of(text, idx):
    return text.count("\n", 0, idx) + 1


def norm(s):
    return re.sub(r"\s+", " ", s).strip()


def loops(body, mask=None):
    """Positions of loop headers in a function body: list of (kw_start, brace_idx) for every
    `while`, `loop`, `for` keyword in code (closures' and nested loops included, in text order)."""
    mask = mask or code_mask(body)
    out = []
    for mm in re.finditer(r"\b(while|loop|for)\b", body):
        if not mask[mm.start()]:
            continue
        # `for` in `impl X for Y` / HRTB `for<'a>` cannot occur as a statement start inside bodies
        # except HRTB; skip `for<`
        if mm.group(1) == "for" and body[mm.end() : mm.end() + 1] == "<":
            continue
        try:
            b = body_open(body, mask, mm.end())
        except ValueError:
            continue
        if body[b] != "{":
            continue
        out.append((mm.start(), b))
    return out
