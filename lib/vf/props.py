"""Which units decide which property (DESIGN.md section 4/5)."""

PROPS = {
    "C19": {
        "kani": ["crux_time"],
        "verus": ["T"],
        "kani_timeout_quick": 300,
        "kani_timeout_thorough": 3600,
        "trusted_base": [
            "Kani 0.68 / CBMC 6.11 (MIR->goto translation, bit-precise machine integers with overflow checks on) and its SAT/SMT back end",
            "rustc (MIR of crux_time and of the real std::time bodies, which are verified together with crux's code, not assumed)",
        ],
        "assumptions": [
            "chrono 0.4.40: the six contracts of TimeDelta::{num_nanoseconds,nanoseconds} and DateTime::<Utc>::{from_timestamp,timestamp,timestamp_subsec_nanos} in verus/T/unit.rs are assumed (Kani does not finish on chrono's own arithmetic)",
            "SystemTime is the unix Timespec{tv_sec:i64,tv_nsec<10^9}: every SystemTime at/after the epoch is UNIX_EPOCH+d for one std Duration d (harness generator any_system_time_from_epoch)",
            "a std::time::Duration is (secs:u64, nanos<10^9) (harness generator any_std_duration)",
            "kani::unwind(3) on harnesses reaching std Timespec::sub_timespec (recurses at most once); unwinding assertions are on, so the bound is checked, not assumed",
        ],
        "not_decided": [
            "an Instant built by the derived Deserialize with nanos >= 10^9 (violates the type invariant that every contract here takes as precondition)",
            "TimeDelta values in (i64::MAX, u64::MAX] ns and Durations above i64::MAX ns are representable on the other side but rejected explicitly (Err), because chrono's API is i64 nanoseconds: counted as explicit rejection, not as a defect",
        ],
    },
}
