"""Which units decide which property (DESIGN.md section 4/5)."""

import os as _os

_V = _os.environ.get("VERIF_HOME", "/verif")

# Audits of assumed contracts (thorough tier). Bounded / sampled: never counted as proof.
AUDITS = {
    "slab": {
        "what": "slab 0.4.9 behaves as the partial map assumed in verus/R and verus/Q (insert/remove/get_mut/contains/len/clear), any 3 operations from empty, keys < 3",
        "kind": "bounded Kani run on the real slab crate (audit/slab)",
        "cwd": _V + "/audit/slab",
        "cmd": ["cargo", "kani"],
        "timeout": 3000,
        "ok_regex": r"VERIFICATION:- SUCCESSFUL",
    },
    "chrono": {
        "what": "chrono 0.4.40 obeys the six contracts assumed in verus/T (nanoseconds, num_nanoseconds, from_timestamp, timestamp, timestamp_subsec_nanos) on a boundary grid and 200k seeded samples",
        "kind": "seeded native sampling of the real chrono crate (audit/chrono)",
        "cwd": _V + "/audit/chrono",
        "cmd": ["cargo", "run", "--release", "--offline", "--quiet"],
        "timeout": 600,
        "ok_regex": r"AUDIT-OK",
    },
}

PROPS = {
    "C19": {
        "kani": ["crux_time"],
        "verus": ["T"],
        "audits": ["chrono"],
        "kani_timeout_quick": 300,
        "kani_timeout_thorough": 1500,
        "trusted_base": [
            "Kani 0.68 / CBMC 6.11 (MIR->goto translation, bit-precise machine integers with overflow checks on) and its SAT/SMT back end",
            "rustc (MIR of crux_time and of the real std::time bodies, which are verified together with crux's code, not assumed)",
        ],
        "assumptions": [
            "chrono 0.4.40: the six contracts of TimeDelta::{num_nanoseconds,nanoseconds} and DateTime::<Utc>::{from_timestamp,timestamp,timestamp_subsec_nanos} in verus/T/unit.rs are assumed (Kani does not finish on chrono's own arithmetic)",
            "SystemTime is the unix Timespec{tv_sec:i64,tv_nsec<10^9}: every SystemTime at/after the epoch is UNIX_EPOCH+d for one std Duration d (harness generator any_system_time_from_epoch)",
            "a std::time::Duration is (secs:u64, nanos<10^9) (harness generator any_std_duration)",
            "kani::unwind(3) on harnesses reaching std Timespec::sub_timespec (recurses at most once); unwinding assertions are on, so the bound is checked, not assumed",
        ],
        "not_decided": [
            "an Instant built by the derived Deserialize with nanos >= 10^9 (violates the type invariant that every contract here takes as precondition)",
            "TimeDelta values in (i64::MAX, u64::MAX] ns and Durations above i64::MAX ns are representable on the other side but rejected explicitly (Err), because chrono's API is i64 nanoseconds: counted as explicit rejection, not as a defect",
        ],
    },
    "C02": {
        "kani": ["crux_core"],
        "verus": ["Q", "X", "L", "R"],
        "kani_timeout_quick": 420,
        "kani_timeout_thorough": 3600,
        "trusted_base": [
            "Kani 0.68 / CBMC 6.11 (MIR->goto translation incl. dyn FnOnce/Fn calls through vtables, Arc/atomics treated sequentially) and its SAT back end",
            "rustc MIR of crux_core, erased-serde 0.4.6 and serde (their real bodies are executed symbolically, not assumed)",
        ],
        "assumptions": [
            "Resolve<Out>, Request<Op> and ResolveSerialized are parametric in Out/Op: proved at Out = u64 and u8 with fully symbolic values",
            "continuations are modelled by recording closures (count, first two values, alive flag); what a real continuation does with the value (send into the task's private channel) is not decided here",
            "in contract harnesses the continuations are zero-sized (Kani contract checking counts freeing a consumed Box as a write outside modifies(self))",
            "unit R (serialized path routing: resume(id) reaches exactly entry id and touches no other): slab as a partial map, lock erasure - see C09",
            "unit L (legacy futures): lock erasure X4 - Arc<Mutex<S>> read as S, X.lock().unwrap() as &mut X, the Weak pointer as (alive, target); std Waker/Context, the deferred send_request closure and the stream's private channel ends are assumed contracts (wake notifies exactly the waker's task; a clone wakes the same task; FIFO channel); Mutex poisoning is not modelled",
        ],
        "not_decided": [
            "that no other task receives the value: each resolve closure owns the only sender of a fresh channel whose receiver goes into the returned future/stream (command/context.rs:52-104) - the constructors are extracted (unit X) but the exclusivity itself is an ownership fact of the Rust type system, not an obligation",
            "unit X proves the stream continuation reports failure exactly when its own futures-mpsc channel refuses the value; that futures-mpsc refuses a value iff the receiving stream is gone is ASSUMED; the one-shot continuation is only proved never to panic",
            "legacy capability futures (capability/shell_request.rs, shell_stream.rs): unit L proves each critical section (ShellRequest::poll, ShellStream::poll_next, the two lifted resolve callbacks) for every acquisition state and composes them in protocol lemmas; that each body IS one critical section is by rule X4 (an explicit drop of the guard havocs the state); the rest of request_from_shell/stream_from_shell (building the Arc/Weak pair and the deferred send_request closure) is not extracted",
            "Core::resolve and Bridge::handle_response wrappers (they reach crossbeam channels)",
        ],
    },
    "C17": {
        "kani": ["crux_kv"],
        "verus": ["K"],
        "kani_timeout_quick": 420,
        "kani_timeout_thorough": 3600,
        "trusted_base": [
            "Kani 0.68 / CBMC 6.11 and its SAT back end; rustc MIR of crux_kv incl. the real derive(Clone, PartialEq) code",
            "Verus 0.2026.09.13 + Z3; vstd's specification of From/Into (ret == from_spec(v))",
        ],
        "assumptions": [
            "Kani half: payload LENGTH bounded (value bytes <= 2, messages <= 2 chars, list page <= 2 keys of <= 1 char); the functions move payloads without inspecting them; Verus half has no such bound",
            "Verus half: derive(Clone) on KeyValueError is a structural copy (assumed external_body spec; Kani executes the real derived clone)",
            "Verus half: Vec<u8>/String/Vec<String> are opaque values; equality of a moved Vec is identity",
        ],
        "not_decided": [
            "emission half, command API: proved on the extracted crux_kv::command::KeyValue::{get,set,delete,exists,list_keys} that each builds one request for the operation of the matching kind carrying key/value/prefix/cursor unchanged and maps the answer with the matching unwrap_* - relative to ASSUMED contracts of Command::request_from_shell and RequestBuilder::map (one request for the operation given; answer passed through the mapping function); `impl Into<String>` keys are carried as what the caller's conversion yields",
            "emission half, capability API (crux_kv/src/lib.rs:309-359): async fns over CapabilityContext::request_from_shell - not reachable",
            "identity across the serialized bridge (serde derive + serde_bytes round trip)",
        ],
    },
    "C09": {
        "kani": ["crux_core"],
        "verus": ["R"],
        "audits": ["slab"],
        "kani_timeout_quick": 420,
        "kani_timeout_thorough": 3600,
        "trusted_base": [
            "Verus 0.2026.09.13 + Z3 (unit R, extracted register/resume against a Map view)",
            "Kani 0.68 / CBMC 6.11 (unit A: Request::serialize, Resolve::deserializing, ResolveSerialized::resolve, macro-generated Effect::serialize on the real erased-serde)",
        ],
        "assumptions": [
            "slab 0.4.9 insert/remove/get_mut behave as a partial map with a fresh key on insert (assumed contracts in verus/R/unit.rs)",
            "lock erasure X4: the registry Mutex is held for the whole body; sequential semantics only (C08 not applicable)",
            "ResolveSerialized::resolve's arity transition is assumed in unit R and proved by Kani on the real body (unit A, in-place contract)",
            "Effect::serialize is any function (uninterpreted serialize_spec); the macro-generated one is checked by Kani for a two-variant enum",
            "fewer than 2^32 registry entries are alive (register panics explicitly otherwise: 'EffectId overflow')",
            "Core<A> is opaque in unit R (process_event/process return some effects); their fixpoint contracts are proved in unit Q",
        ],
        "not_decided": [
            "equality of typed and serialized HISTORIES (relational, whole-history)",
            "BridgeWithSerializer::process is extracted and proved with the map+collect chain written out as a verified loop over the extracted register (rule X13, assumed to be what the adapter chain does); Bridge::process_event/handle_response (bincode set-up) and view are not extracted",
            "bincode/serde_json encodings of Request<EffectFfi>",
        ],
    },
    "C12": {
        "kani": ["crux_core"],
        "verus": ["R"],
        "kani_timeout_quick": 420,
        "kani_timeout_thorough": 3600,
        "trusted_base": [
            "Verus 0.2026.09.13 + Z3 (unit R: frame of resume also when the response is rejected)",
            "Kani 0.68 / CBMC 6.11 (unit A: a response that fails to decode never reaches the continuation, on the real erased-serde; format! stubbed)",
        ],
        "assumptions": [
            "bincode and serde_json return Err rather than panic, hang or over-allocate on arbitrary bytes (third-party, for all byte strings - out of reach)",
            "slab contracts and lock erasure as for C09",
            "kani::stub(alloc::fmt::format) on the decode-error path (serde builds its error message with format!)",
        ],
        "not_decided": [
            "event path: proved on the extracted BridgeWithSerializer::process that a DeserializeEvent error leaves core, registry and output untouched - with Core opaque (its own behaviour is unit Q's) and erased_serde::deserialize assumed total",
            "no panic / hang / unbounded allocation inside the deserializers for arbitrary bytes",
            "a response to an id that is NOT outstanding panics (documented FIXME in registry.rs); C12 is read as speaking of outstanding requests",
        ],
    },
    "C13": {
        "kani": [],
        "verus": ["R", "Q", "W", "L"],
        "audits": ["slab"],
        "trusted_base": ["Verus 0.2026.09.13 + Z3 (units R and Q)"],
        "assumptions": [
            "slab contracts and lock erasure as for C09",
            "unit Q: both run_task functions are extracted and proved; what is assumed is polling a task's future (havoc) and that std's Arc/Waker reference counting behaves as counting (the strong count of a poll's waker is 1 + 1 while the Waker lives + 1 per clone user code kept); 'nothing can wake it again' is read as: not woken during the poll and no clone of THIS poll's waker survives (wakers of earlier polls do not count - the code's own reading)",
            "unit Q: a Task taken from the spawn queue is a task the command has not held before (moved, never cloned)",
            "unit W: CLEARED_TIMER_IDS is a ghost set (HashSet::remove assumed), the inner shell-request future does not touch it",
        ],
        "not_decided": [
            "that dropping the removed Task drops everything it captured (Rust drop glue)",
            "Core field drop order",
            "the cleared-timer set across calls: unit W proves that polling a timer future takes exactly its own id out of the set; an id cleared after its future is gone stays (F8, cross-call history) and Time::clear itself is an async block",
        ],
    },
    "C04": {
        "kani": [],
        "verus": ["M", "Q", "N"],
        "trusted_base": ["Verus 0.2026.09.13 + Z3 (unit M: lifted task bodies of Command::{then, map_effect, map_event, event, notify_shell}; unit Q: Command::{new, done, spawn, all, and}, CommandSink::start_send)"],
        "assumptions": [
            "rule X17 (synchronous projection): each combinator is `Command::new(|ctx| async move { .. })`; the closure's block is lifted into a function of what it captures and `.await` is erased - the awaited future has run to its end when the next statement starts (drops: rustc's future state machine and when the pieces are polled; keeps every statement and argument)",
            "`host` (`self.map(Ok).forward(CommandSink::new(effects, events))`, a futures adapter chain) is an ASSUMED call that logs which stream was forwarded into which channels and that it ended; `StreamExt::map(f)` is assumed to apply f to every output once, in order; CommandSink::start_send (one output into the matching channel, once) is proved in unit Q",
            "ctx.send_event / ctx.notify_shell as proved in unit Q / Kani unit A",
            "the user's mapping function is any function (call_requires/call_ensures)",
        ],
        "not_decided": [
            "the algebraic laws (done is a unit for then/and, all of one command equals it, identity mapping, order-insensitivity) and observable equality with a reference semantics: trace equalities over programs x schedules, not per-call contracts",
            "the builder chains of command/builder.rs: then_send (both builders), map and then_request (both), then_stream (both) are lifted and proved relative to ASSUMED contracts that name the documented semantics of each futures adapter (StreamExt::then / map / buffer_unordered / flatten_unordered(limit) / flat_map, FutureExt::map / then); that the names fit futures 0.3 is an assumption",
            "and/all run their parts CONCURRENTLY and finish when all have: decided only as 'each part is hosted by its own task' (unit Q, reported under C01/C06 too)",
        ],
    },
    "C05": {
        "kani": [],
        "verus": ["N", "Q", "X"],
        "trusted_base": ["Verus 0.2026.09.13 + Z3 (unit N: Stream::poll_next for Command against an action log; unit Q: CommandWaker::{wake, wake_by_ref}, TaskWaker::{wake, wake_by_ref}; unit X: ShellStream::poll_next)"],
        "assumptions": [
            "unit N: AtomicWaker::register stores the waker and a later wake() wakes it (futures); run_until_settled / is_done / try_recv are assumed calls that log themselves (what they do is unit Q's subject)",
            "unit Q: futures AtomicWaker::wake wakes the waker the host registered; the ready queue is a FIFO channel; flags are read sequentially",
            "unit X: futures-mpsc receiver / Fuse<StreamFuture> as assumed contracts",
        ],
        "not_decided": [
            "the property itself is RELATIONAL (the same program under direct inspection, nesting, Core, the bridge yields the same outputs at the same points): not a per-call contract and not decided",
            "also counted here (unit Q): Command::run_until_settled and Core::process return only at their local fixpoint (no runnable work left behind, every internally emitted event applied) - which is what makes a wake-up that arrives during a call noticed by the host in the SAME call",
            "what IS decided is its 'in particular' sentence, layer by layer: a woken command task is queued once and the command's host is woken too (CommandWaker), the hosting executor task is re-queued (TaskWaker), the host's waker is registered first thing in every poll and before any task runs (poll_next), a stream request stores its consumer's waker before the request can be answered; composing these over arbitrary nesting depth is an induction over programs, not a contract",
            "dropping a request closes its channel, which wakes the awaiting task: futures-mpsc behaviour (assumed)",
        ],
    },
    "C18": {
        "kani": [],
        "verus": ["P", "W"],
        "trusted_base": ["Verus 0.2026.09.13 + Z3 (unit P: lifted task bodies of Time::notify_after / notify_at, the two constructors, TimerHandle::clear, get_timer_id; unit W: the legacy TimerFuture::poll)"],
        "assumptions": [
            "rule X20 (select projection): `select_biased! { response = REQ.fuse() => A, cleared = receiver => B }` is read as `match select2(REQ, receiver) { Shell(response) => A, Cleared(cleared) => B }`; select2 is an ASSUMED call: polling the select sends REQ to the shell (its future is polled first) and awaits one arm; which arm completes is a prophecy of the environment (answer_waiting, cleared_pending) constrained only by the bias (an answer already waiting wins) and by futures' fused oneshot receiver (the clear arm completes only with the id the handle sent; a dropped handle is never selected)",
            "rule X17: .await erased; `ctx.request_from_shell(op).await` hands exactly op to the shell once and yields its answer; the shell answers in kind and for the same timer id (otherwise the real code panics explicitly)",
            "oneshot try_recv yields the handle's id iff the handle was cleared before; oneshot send delivers its value",
            "the process-wide COUNTER (AtomicUsize::fetch_add) is read sequentially (C08 not claimed) and has not wrapped (fewer than 2^64 - 1 timers): stated as a precondition",
            "std Duration / SystemTime -> wire conversions are opaque here (proved in unit T under C19)",
        ],
        "not_decided": [
            "interleavings over several polls (the select is read as awaited to its end; that a clear arriving between two polls is seen by a later poll is futures' oneshot + select semantics)",
            "'dropping the handle never cancels the timer': follows from the fused receiver never completing on Canceled - assumed in select2, not proved",
            "'clears or answers arriving after the outcome are ignored': the task has returned; what a late resolve does is C02/C06's subject",
            "the legacy API (crux_time/src/lib.rs notify_at/notify_after/clear: async blocks over a global cleared set): only TimerFuture::poll is proved (unit W)",
            "uniqueness across threads (fetch_add is atomic: std) and after counter wrap-around",
        ],
    },
    "C11": {
        "kani": [],
        "verus": ["H"],
        "trusted_base": ["Verus 0.2026.09.13 + Z3 (unit H: extracted PartialEq for Response::eq and headers_within)"],
        "assumptions": [
            "http-types Headers is a HashMap seen as a finite map name -> values (content)",
            "two HashMaps walked side by side (`a.iter().zip(b.iter()).all(..)`) have an UNSPECIFIED answer (weakest sound contract: iteration order is unspecified and differs between maps with equal contents)",
            "the body type's own PartialEq is the app's (uninterpreted body_eq_s); Option<Version> and StatusCode compare structurally",
        ],
        "not_decided": [
            "the property is a two-run hyperproperty (same history => same serialized effects in every run and process): NOT decided; only its last clause - values the API hands out compare equal exactly when their contents are equal - is decided, and only for Response (hand-written PartialEq) - where it FAILS on the tree: known finding F5; HttpRequest / HttpResponse / HttpError / HttpHeader derive PartialEq (not checked: seed C11_1 replaces a derive by a hand-written order-insensitive eq and is missed)",
            "F6 (known finding): the lemma 'same header contents => same protocol header list' over into_protocol_request's proved contract fails - the list follows the HashMap's iteration order",
            "timer ids from a process-wide counter; select! vs select_biased! (seed C11_2 is caught under C18)",
        ],
    },
    "C14": {
        "kani": [],
        "verus": ["H", "B"],
        "trusted_base": ["Verus 0.2026.09.13 + Z3 (unit H: extracted into_protocol_request and the endpoint closure of Client::send)"],
        "assumptions": [
            "http-types is third-party: the request is an opaque value seen through assumed accessor contracts (is_empty = declared length known and zero, take_body/into_bytes read the body to its end, method(), url(), Display of Method/Url); a body declared empty reads as empty (axiom empty_body_reads_empty)",
            "the header iterator chain `self.iter().flat_map(|(name, values)| values.iter().map(|value| HttpHeader{..})).collect()` is verified as written: the two closures get contracts taken from the property (each protocol header is the name and one value as given; every value of a header), the adapters flat_map / map / collect are ASSUMED parametric contracts ('if the closure maps every element as its contract says, the adapter produces exactly those, in order'); another SHAPE of the chain (e.g. `.map` at the outer level, seed C14_1) leaves the check undecided",
            "rule X17 (synchronous projection) as for C16",
        ],
        "not_decided": [
            "what http-types computes for a body, a content type or a query (Body::from_json/from_string/from_form, Request::set_body/set_content_type/set_query: uninterpreted state transformers); unit B proves that every setter of crux_http::Request and of both RequestBuilders hands exactly the value the app gave to exactly one such call and touches nothing else; the constructors (method, URL) and the header setters (insert/append/remove/set_header, builders' header) are extracted too; what http-types does with impl ToHeaderValues / Into<HeaderName> is uninterpreted",
            "the ORDER of headers in the protocol request is the hash map's iteration order (C11, F6) - C14 compares header sets",
            "that each API call emits exactly one request effect: proved per piece - the endpoint closure of Client::send (capability API) and the lifted task of command::RequestBuilder::build (command API) each ask the shell exactly once with exactly the converted request; `Command::request_from_shell(op).into_future(ctx).await` is an assumed call (its constructor is proved in unit X)",
        ],
    },
    "C15": {
        "kani": [],
        "verus": ["H", "D"],
        "trusted_base": ["Verus 0.2026.09.13 + Z3 (unit H: extracted From<HttpResponse> for ResponseAsync, Response::new)"],
        "assumptions": [
            "http-types is third-party: Response::new(status) PANICS for a status code its StatusCode enum has no name for (assumed precondition known_status, read off http-types 2.12 response.rs:63), set_body/append_header record what they are given, body_bytes reads the body to its end and leaves status/headers/version alone, is_client_error = 400..=499, is_server_error = 500..=599",
            "rule X17 (synchronous projection) as for C16",
            "unit D: encoding_rs::Encoding::for_label / decode are uninterpreted; borrowed text returned by decode IS the input read as UTF-8 (encoding_rs's documented guarantee, which the body's unsafe from_utf8_unchecked relies on); String::from_utf8 / <[u8]>::is_ascii as assumed specs (only so that a changed body stays within reach)",
            "unit D/H (round 3): serde_json::from_slice, Mime::param, `s.parse::<Mime>().ok()`, Option::as_deref are assumed (uninterpreted functions of their arguments); From<serde_json::Error> / From<http_types::Error> for HttpError are assumed conversions; Response::body_bytes is assumed in unit D with the contract unit H proves; body_string is assumed in unit H (frame + named result), implied by what unit D proves",
        ],
        "not_decided": [
            "body expectations: decode_body (the default `encoding` build on native targets) is proved to decode with exactly the encoding the declared charset names (UTF-8 by default), to turn an unknown charset or a malformed body into an error value and to hand on exactly the decoder's text (unit D; encoding_rs uninterpreted); Response::body_string (unit D) is proved to pass exactly the charset parameter of the last Content-Type value to decode_body, body_bytes / body_json / the three ResponseExpectation::decode impls (unit H) to take the stored bytes as they are, hand exactly them to serde_json and keep status, headers, version; the other two cfg variants of decode_body and what serde_json / Mime::param / media-type parsing compute are not decided",
            "capability API: RequestBuilder::send is proved to send the request once, call the event constructor once, send one outcome event and pass a chain error through unchanged; that the success outcome IS Response::new(..).and_then(decode) composed is proved only piecewise (Response::new's contract, the decode closure's contract, Result::and_then assumed), not as one equation",
            "command API: the lifted task of build() is proved to ask the shell once and to pass a shell error through unchanged; the success arm as above",
        ],
    },
    "C16": {
        "kani": [],
        "verus": ["H"],
        "trusted_base": ["Verus 0.2026.09.13 + Z3 (unit H: extracted Next::run, Redirect::handle, REDIRECT_CODES, Client::send of crux_http)"],
        "assumptions": [
            "http-types / url are third-party: Url::parse / Url::join are uninterpreted (parse_spec / join_spec: whatever RFC 3986 resolution the url crate implements), Request/ResponseAsync/HeaderValues are opaque values seen through assumed accessor contracts (url, as_mut, url_mut, clone = same URL/method/headers with an empty body, status, header(LOCATION), last().as_str())",
            "rule X17 (synchronous projection): async fn -> fn, .await erased; `client.send(r).await` inside a middleware is an assumed call that logs the request and yields any answer; `next.run(req, client).await` inside a middleware is an assumed call that logs the forwarded request (Next::run itself is proved separately)",
            "dyn Middleware::handle is user code: assumed only to have been called with the request and the rest of the chain it was given (logged)",
            "the endpoint closure called once is one trip to the shell (its body, built in Client::send, is under contract separately); in Client::send's own body the two Vec::extend calls are assumed appends (rule X13.extend) and 'fewer than 2^31 middlewares' is a precondition (Vec::with_capacity(a + b))",
            "partial correctness: the redirect loop is bounded by `attempts` (proved: redirect_count <= attempts), termination of callees is not claimed",
        ],
        "not_decided": [
            "that every middleware calls next.run exactly once (user code); 'the shell is reached exactly once per invocation of the rest of the chain' is proved for the empty rest (the endpoint is called once) and, per link, that Next::run hands the request to the first remaining middleware with exactly the remaining chain",
            "the command API's `.middleware(..)` (crux_http/src/command.rs): build() converts the request directly and never runs the per-request middleware - seen while reading, not expressible as a contract of a function that exists",
            "what url::Url::join computes (RFC 3986 resolution) - third party",
        ],
    },
    "C01": {
        "kani": [],
        "verus": ["Q", "X", "N"],
        "trusted_base": ["Verus 0.2026.09.13 + Z3 (unit Q: about 60 extracted functions of capability/{executor,channel,mod}.rs, core/mod.rs, command/{mod,executor,stream,context}.rs incl. the constructors; unit X: ShellStream::{send,poll_next}, ShellRequest::poll)"],
        "assumptions": [
            "crossbeam-channel unbounded channels used sequentially are FIFO queues: try_recv returns the head iff non-empty and removes it, send appends, is_empty reads (assumed contracts in verus/Q/unit.rs)",
            "everything that runs user code (polling a task's future, App::update, Request::resolve's continuation, join-handle wakers) is HAVOC on every queue restricted to appending to the event/effect queues; QueuingExecutor::run_task itself is extracted and proved",
            "sequential reading: between calls no executor slot is empty (QueuingExecutor::idle: no other thread is polling a task), so RunTask::Unavailable does not occur; C08 is not claimed",
            "the executor's task Mutex is erased to exclusive access (rule X4: &self -> &mut self up to Core::process_event/resolve)",
            "rule X17 (synchronous projection) for CommandSpawner::spawn's task body: `command.next().await` is an assumed call that logs what the hosted command yields and leaves the core's own queues alone (a legacy capability used inside a command task appends to them directly: not modelled); the `async move` block is read as the loop it runs when polled to its end",
            "the hosting closures of Command::all/and and `|_ctx| ready(())` of Command::done are marked quiet (building the future sends nothing) by counted rules keyed to exactly those texts",
            "unit X, future side: futures-mpsc receiver and Fuse<StreamFuture<_>> are assumed contracts; before a request is sent nothing can be in its private channel (its only sender lives in the unsent request)",
            "Iterator::collect over Drain is the loop `while let Some(x) = next() { push }` (rule X13), verified against the extracted Drain::next",
            "the core's channels are never disconnected while the Core exists (it owns a sender of each)",
            "locks are not poisoned; fewer than 2^32 executor tasks are alive (the code panics explicitly otherwise)",
            "partial correctness only: the loops need not terminate and no decreases clause is claimed",
        ],
        "not_decided": [
            "the futures adapters between the proved pieces: StreamExt::next / forward / map and host(); CommandSpawner's loop and CommandSink::start_send are proved, that `forward` calls start_send once per item is futures' contract",
            "nested hosting of commands as a whole; any schedule of resolutions (the proofs are per call, for any queue contents)",
            "that tasks made runnable by the input are exactly the ones in the queues (wakers are user-visible objects: havoc)",
            "termination",
        ],
    },
    "C03": {
        "kani": [],
        "verus": ["Q"],
        "trusted_base": ["Verus 0.2026.09.13 + Z3 (unit Q: extracted process, process_event, resolve, receive, send_event)"],
        "assumptions": [
            "FIFO channel contracts and havoc contracts as for C01",
            "RwLock::write succeeds (not poisoned) and would deadlock/panic if a write guard already exists: modelled as a precondition; drop(guard) releases it (rule X4)",
            "App::update is user code: it appends its event to the applied log and may append events/effects; it requires the write guard to be held",
        ],
        "not_decided": [
            "'never entered concurrently' is decided only in its sequential reading (guard taken for exactly one update, released before tasks run)",
            "events emitted by ONE task are applied in the order emitted: rests on the FIFO contract of the single event channel",
            "the view model read after a call reflects every applied event (Core::view takes a read lock: not extracted)",
            "that a CapabilityContext's app_channel feeds the core's event queue unmapped (established by Core::new / ProtoContext::specialize, not extracted): update_app and channel::Sender::send are proved to send the event exactly once on whatever their inner sender is",
        ],
    },
    "C06": {
        "kani": [],
        "verus": ["Q", "X", "R", "L"],
        "audits": ["slab"],
        "trusted_base": ["Verus 0.2026.09.13 + Z3 (unit Q: extracted Command::{run_task, run_until_settled, is_done, was_aborted} and Stream::poll_next)"],
        "assumptions": [
            "abort flags are read sequentially (c_aborted for the command, aborted_tasks for JoinHandle::abort); they are shared atomics: concurrent setting is not modelled (C08 not claimed)",
            "polling a task's future is havoc restricted to appends; Task::is_aborted reads the task's own flag (assumed one-liner)",
            "FIFO channel contracts, slab contracts as for C01/C13",
        ],
        "not_decided": [
            "every injection point in every schedule (before first poll, while pending, between stream items, repeatedly, at every nesting level): the contracts are per call, for any state at entry",
            "'resolving a request that belonged to cancelled work neither panics nor has any visible consequence': unit X proves the two command-API continuations never panic on a closed channel (the one-shot ignores it, the stream reports Err); 'no visible consequence' beyond that needs the future side",
            "'dropping the hosting future drops the nested command and all its tasks' (command/mod.rs:477-501): async blocks and drop glue",
            "a request dropped unresolved: the eviction decision is proved as stated in run_task, that a dropped request makes the waker count fall is user/std behaviour (havoc)",
        ],
    },
    "C07": {
        "kani": [],
        "verus": ["Q", "X"],
        "trusted_base": ["Verus 0.2026.09.13 + Z3 (unit Q: extracted Command::{run_task, run_until_settled, spawn_new_tasks, is_done} and Stream::poll_next)"],
        "assumptions": [
            "'something can still wake the task' is read as the code reads it: the task was woken during this poll, or a clone of THIS poll's waker survives; wakers handed out by earlier polls do not count. Whether that reading is exact for arbitrary futures (joins, selects, channels that keep old wakers) is a statement about all programs and is NOT decided",
            "std Arc/Waker reference counting behaves as counting (assumed contracts of new_poll_waker/waker_of/drop_waker/poll_waker_refs in verus/Q/unit.rs)",
            "polling a task's future is havoc; slab contracts",
        ],
        "not_decided": [
            "exactness of the eviction heuristic over all futures (see assumptions)",
            "'a request future whose channel closed stays pending without re-registering a waker' (command/context.rs:219-229): proved on the extracted ShellRequest::poll and ShellStream::poll_next (unit X) relative to an ASSUMED contract of futures' Fuse<StreamFuture<_>>::poll_unpin (poll the stream once unless completed; once completed answer Pending and touch nothing) and of the futures-mpsc receiver",
            "'a command whose tasks wait only on shell requests reports done once all have been resolved or dropped': needs the future side of requests",
        ],
    },
}
