// Unit L (C02): the legacy capability futures - capability/shell_request.rs and shell_stream.rs.
// Extracted verbatim on every run: ShellRequest::poll, ShellStream::poll_next, and the two resolve
// callbacks (the closures handed to Request::resolves_once / resolves_many_times), lifted into
// functions whose parameters are what the closures capture.
//
// The state shared between a future and its resolve callback sits behind Arc<Mutex<..>>. Each of the
// four bodies is ONE critical section: it locks first and the guard lives to the end of the body.
// Rule X4 (lock erasure) therefore reads the section as a function of the protected state:
// `Arc<Mutex<SharedState<T>>>` -> `SharedState<T>`, `X.lock().unwrap()` -> `&mut X`. The contracts
// are quantified over EVERY state at acquisition (whatever other threads left there) and describe
// the state at release, so they are lock-section contracts, valid under any interleaving of whole
// sections. An explicit `drop(guard)` inside a body ends the section early: rule X4.release turns
// it into `release(..)`, which HAVOCS the protected state (another thread may now run).
// The protocol lemmas at the end compose the section contracts: no lost wake-up, value unchanged,
// exactly one delivery.
use vstd::prelude::*;

//@@default-rule X4.lock s/(\w+(?:\.\w+)*)\.lock\(\)\.unwrap\(\)/(&mut \1)/
//@@default-rule X4.release s/\bdrop\((\w+)\);/release(\1);/
//@@default-rule X6.world s/\.wake\(\)/.wake(Tracked(w))/
//@@default-rule X6.world s/\.try_receive\(\)/.try_receive(Tracked(w))/
//@@default-rule X6.world s/\bsender\.send\(/sender.send(Tracked(w), /

verus! {

pub tracked struct LW {
    /// how many times the request has been handed to the shell (the send_request closure called)
    pub ghost sent: nat,
    /// identities of the wakers woken so far, oldest first
    pub ghost woken: Seq<int>,
    /// legacy stream: values the resolve callback has sent that the stream has not yet yielded
    pub ghost queue: Seq<int>,
}

/// identity of a value of the operation's output type (opaque to crux)
pub uninterp spec fn val_id<T>(t: T) -> int;

// ------------------------------------------------------------------ assumed: std::task
#[verifier::external_body]
pub struct Waker { _p: u8 }
impl Waker {
    pub uninterp spec fn id(&self) -> int;
    // ASSUMED: waking consumes the waker and notifies exactly the task it belongs to
    #[verifier::external_body]
    pub fn wake(self, Tracked(w): Tracked<&mut LW>)
        ensures *final(w) == (LW { woken: old(w).woken.push(self.id()), ..*old(w) }),
    { unimplemented!() }
    // ASSUMED: wakes the same task as `other`?
    #[verifier::external_body]
    pub fn will_wake(&self, other: &Waker) -> (r: bool)
        ensures r ==> self.id() == other.id(),
    { unimplemented!() }
}
impl Clone for Waker {
    // ASSUMED: a clone wakes the same task
    #[verifier::external_body]
    fn clone(&self) -> (r: Self)
        ensures r.id() == self.id(),
    { unimplemented!() }
}
#[verifier::external_body]
pub struct Context<'a> { _p: core::marker::PhantomData<&'a ()> }
impl<'a> Context<'a> {
    pub uninterp spec fn waker_id(&self) -> int;
    #[verifier::external_body]
    pub fn waker(&self) -> (r: &Waker)
        ensures r.id() == self.waker_id(),
    { unimplemented!() }
}
pub enum Poll<T> { Ready(T), Pending }

/// X5: `Box<dyn FnOnce() + Send + 'static>` - the deferred `context.send_request(request)` (unit Q
/// proves CapabilityContext::send_request sends exactly once on the shell channel)
#[verifier::external_body]
pub struct SendRequest { _p: u8 }
impl SendRequest {
    #[verifier::external_body]
    pub fn call(self, Tracked(w): Tracked<&mut LW>)
        ensures *final(w) == (LW { sent: old(w).sent + 1, ..*old(w) }),
    { unimplemented!() }
}

/// X4.release: the guard is dropped before the end of the body - from here on another thread may
/// hold the lock, so nothing is known about the protected state any more
#[verifier::external_body]
pub fn release<S>(s: &mut S) { unimplemented!() }

/// X4: `Weak<Mutex<S>>` held by a resolve callback: `alive` = the future still exists
pub struct WeakState<S> { pub alive: bool, pub target: S }
pub struct Strong { pub ok: bool }
impl<S> WeakState<S> {
    /// ASSUMED (std::sync::Weak): upgrade succeeds exactly while the future (the only strong
    /// reference outside a running callback) is alive
    pub fn upgrade(&self) -> (r: Option<Strong>)
        ensures r is Some <==> self.alive,
    { if self.alive { Some(Strong { ok: true }) } else { None } }
}

// ================================================================== shell_request.rs
pub mod shell_request {
    use super::*;

//@extract id=req.SharedState file=crux_core/src/capability/shell_request.rs item="struct SharedState"
//@rule X2.vis 1 s/^struct SharedState/pub struct SharedState/
//@rule X2.vis * s/\n(\s+)(result|send_request|waker):/\n\1pub \2:/
//@rule X5.boxed-fnonce 1 s/Box<dyn FnOnce\(\) \+ Send \+ 'static>/SendRequest/
//@end
//@extract id=req.ShellRequest file=crux_core/src/capability/shell_request.rs item="struct ShellRequest"
//@rule X4.lock 1 s/Arc<Mutex<SharedState<T>>>/SharedState<T>/
//@rule X2.vis 1 s/\n(\s+)shared_state:/\n\1pub shared_state:/
//@end

    /// what one critical section of `poll` does to the protected state (s1 at acquisition, s2 at release)
    pub open spec fn poll_section<T>(s1: SharedState<T>, s2: SharedState<T>, w1: LW, w2: LW, cx_waker: int, r: Poll<T>) -> bool {
        &&& s2.send_request is None
        &&& w2.sent == w1.sent + (if s1.send_request is Some { 1nat } else { 0nat })
        &&& w2.woken == w1.woken && w2.queue == w1.queue
        &&& s2.result is None
        &&& (s1.result matches Some(v) ==> r == Poll::Ready(v))
        &&& (s1.result is None ==> r is Pending && s2.waker is Some && s2.waker->0.id() == cx_waker)
    }

    impl<T> ShellRequest<T> {
//@extract id=legacy::ShellRequest::poll file=crux_core/src/capability/shell_request.rs within="impl<T> Future for ShellRequest<T>" item="fn poll" props=C02
//@expect fn poll( self: std::pin::Pin<&mut Self>, cx: &mut std::task::Context<'_>, ) -> std::task::Poll<Self::Output>
//@sig pub fn poll(&mut self, Tracked(w): Tracked<&mut LW>, cx: &mut Context<'_>) -> (r: Poll<T>)
//@contract
            ensures
                final(self).shared_state.send_request is None && final(w).sent == old(w).sent + (if old(self).shared_state.send_request is Some { 1nat } else { 0nat }), // [C02/legacy-request/poll/the-request-is-handed-to-the-shell-on-the-first-poll-exactly-once]
                old(self).shared_state.result matches Some(v) ==> r == Poll::Ready(v), // [C02/legacy-request/poll/a-delivered-value-is-returned-unchanged]
                final(self).shared_state.result is None, // [C02/legacy-request/poll/a-delivered-value-is-consumed-once]
                old(self).shared_state.result is None ==> r is Pending && final(self).shared_state.waker is Some && final(self).shared_state.waker->0.id() == old(cx).waker_id(), // [C02/legacy-request/poll/pending-only-with-the-polling-tasks-waker-registered-in-the-same-critical-section]
                poll_section(old(self).shared_state, final(self).shared_state, *old(w), *final(w), old(cx).waker_id(), r),
//@bind send Some\((\w+)\)\s*=\s*\w+(?:\.\w+)*\.send_request\.take\(\)|\.send_request\.take\(\)\s*\{\s*Some\((\w+)\)\s*=>
//@rule X6.world * s/\b$send\(\)/$send.call(Tracked(w))/
//@end
    }

    /// what one critical section of the resolve callback does
    pub open spec fn resolve_section<T>(c1: WeakState<SharedState<T>>, c2: WeakState<SharedState<T>>, w1: LW, w2: LW, v: T) -> bool {
        &&& c2.alive == c1.alive
        &&& (!c1.alive ==> c2 == c1 && w2 == w1)
        &&& (c1.alive ==> c2.target.result == Some(v) && c2.target.waker is None && c2.target.send_request == c1.target.send_request
                && w2.sent == w1.sent && w2.queue == w1.queue
                && w2.woken == (if c1.target.waker is Some { w1.woken.push(c1.target.waker->0.id()) } else { w1.woken }))
    }

//@extract id=legacy::request_from_shell::resolve-callback file=crux_core/src/capability/shell_request.rs within="impl<Op, Ev> crate::capability::CapabilityContext<Op, Ev>" item="fn request_from_shell" closure="Request::resolves_once\(operation,\s*" props=C02+C06+C13
//@expect move |$x|
//@sig pub fn resolve_callback<T>(callback_shared_state: &mut WeakState<SharedState<T>>, Tracked(w): Tracked<&mut LW>, $x: T)
//@contract
        ensures
            !old(callback_shared_state).alive ==> *final(callback_shared_state) == *old(callback_shared_state) && *final(w) == *old(w), // [C02+C06+C13/legacy-request/resolve/a-dropped-future-makes-the-resolution-a-no-op-the-callback-does-not-own-the-shared-state]
            old(callback_shared_state).alive ==> final(callback_shared_state).target.result == Some($x), // [C02/legacy-request/resolve/the-value-is-stored-unchanged]
            old(callback_shared_state).alive && old(callback_shared_state).target.waker is Some ==> final(w).woken == old(w).woken.push(old(callback_shared_state).target.waker->0.id()) && final(callback_shared_state).target.waker is None, // [C02/legacy-request/resolve/a-registered-waker-is-woken-exactly-once-in-the-same-critical-section]
            resolve_section(*old(callback_shared_state), *final(callback_shared_state), *old(w), *final(w), $x),
//@rule X4.weak 1 s/let mut (\w+)(?:: [^=]+)? = \w+\.lock\(\)\.unwrap\(\);/let \1 = &mut callback_shared_state.target;/
//@end

    /// No lost wake-up, value unchanged, delivered once - for EVERY state the lock is acquired in:
    /// if a poll section ends Pending and the resolve section runs next on that state, the polling
    /// task's waker is woken and the next poll section returns exactly the resolved value; if the
    /// resolve section runs first, the next poll returns the value without ever waiting.
    pub proof fn lemma_request_protocol<T>(s0: SharedState<T>, s1: SharedState<T>, s2: SharedState<T>, s3: SharedState<T>,
        w0: LW, w1: LW, w2: LW, w3: LW, cx1: int, cx2: int, r1: Poll<T>, r2: Poll<T>, v: T)
        requires
            s0.result is None,
            poll_section(s0, s1, w0, w1, cx1, r1),
            resolve_section(WeakState { alive: true, target: s1 }, WeakState { alive: true, target: s2 }, w1, w2, v),
            poll_section(s2, s3, w2, w3, cx2, r2),
        ensures
            r1 is Pending,
            w2.woken == w0.woken.push(cx1), // [C02/legacy-request/lemma/poll-then-resolve-wakes-the-polling-task]
            r2 == Poll::Ready(v), // [C02/legacy-request/lemma/the-next-poll-returns-the-resolved-value-unchanged]
            s3.result is None, // [C02/legacy-request/lemma/the-value-is-delivered-once]
            w3.sent == w0.sent + (if s0.send_request is Some { 1nat } else { 0nat }), // [C02/legacy-request/lemma/the-request-was-sent-once]
    {
    }
}


// ================================================================== shell_stream.rs
pub mod shell_stream {
    use super::*;

    // capability/channel.rs ends of the stream's private channel. ASSUMED here (unit Q proves
    // Receiver::receive and Sender::send over the same crossbeam model): FIFO; try_receive takes
    // the head if there is one, else reports empty (Ok(None)) or disconnected (Err).
    #[verifier::external_body]
    #[verifier::accept_recursive_types(T)]
    pub struct Receiver<T> { _p: core::marker::PhantomData<T> }
    impl<T> Receiver<T> {
        #[verifier::external_body]
        pub fn try_receive(&self, Tracked(w): Tracked<&mut LW>) -> (r: Result<Option<T>, ()>)
            ensures
                old(w).queue.len() > 0 ==> (r matches Ok(Some(v)) && val_id(v) == old(w).queue[0] && *final(w) == (LW { queue: old(w).queue.drop_first(), ..*old(w) })),
                old(w).queue.len() == 0 ==> (r == Ok::<Option<T>, ()>(None) || r is Err) && *final(w) == *old(w),
        { unimplemented!() }
    }
    #[verifier::external_body]
    #[verifier::accept_recursive_types(T)]
    pub struct Sender<T> { _p: core::marker::PhantomData<T> }
    impl<T> Sender<T> {
        #[verifier::external_body]
        pub fn send(&self, Tracked(w): Tracked<&mut LW>, t: T)
            ensures *final(w) == (LW { queue: old(w).queue.push(val_id(t)), ..*old(w) }),
        { unimplemented!() }
    }

//@extract id=str.SharedState file=crux_core/src/capability/shell_stream.rs item="struct SharedState"
//@contract
    #[verifier::reject_recursive_types(T)]
//@rule X2.vis 1 s/^struct SharedState/pub struct SharedState/
//@rule X2.vis * s/\n(\s+)(receiver|send_request|waker):/\n\1pub \2:/
//@rule X5.boxed-fnonce 1 s/Box<dyn FnOnce\(\) \+ Send \+ 'static>/SendRequest/
//@end
//@extract id=str.ShellStream file=crux_core/src/capability/shell_stream.rs item="struct ShellStream"
//@contract
    #[verifier::reject_recursive_types(T)]
//@rule X4.lock 1 s/Arc<Mutex<SharedState<T>>>/SharedState<T>/
//@rule X2.vis 1 s/\n(\s+)shared_state:/\n\1pub shared_state:/
//@end

    pub open spec fn poll_next_section<T>(s1: SharedState<T>, s2: SharedState<T>, w1: LW, w2: LW, cx_waker: int, r: Poll<Option<T>>) -> bool {
        &&& s2.send_request is None
        &&& w2.sent == w1.sent + (if s1.send_request is Some { 1nat } else { 0nat })
        &&& w2.woken == w1.woken
        &&& (w1.queue.len() > 0 ==> (r matches Poll::Ready(Some(v)) && val_id(v) == w1.queue[0] && w2.queue == w1.queue.drop_first()))
        &&& (w1.queue.len() == 0 ==> w2.queue == w1.queue && (r == Poll::Ready(None::<T>) || (r is Pending && s2.waker is Some && s2.waker->0.id() == cx_waker)))
    }

    impl<T> ShellStream<T> {
//@extract id=legacy::ShellStream::poll_next file=crux_core/src/capability/shell_stream.rs within="impl<T> Stream for ShellStream<T>" item="fn poll_next" props=C02
//@expect fn poll_next( self: std::pin::Pin<&mut Self>, cx: &mut std::task::Context<'_>, ) -> Poll<Option<Self::Item>>
//@sig pub fn poll_next(&mut self, Tracked(w): Tracked<&mut LW>, cx: &mut Context<'_>) -> (r: Poll<Option<T>>)
//@contract
            ensures
                final(self).shared_state.send_request is None && final(w).sent == old(w).sent + (if old(self).shared_state.send_request is Some { 1nat } else { 0nat }), // [C02/legacy-stream/poll_next/the-request-is-handed-to-the-shell-on-the-first-poll-exactly-once]
                old(w).queue.len() > 0 ==> (r matches Poll::Ready(Some(v)) && val_id(v) == old(w).queue[0] && final(w).queue == old(w).queue.drop_first()), // [C02/legacy-stream/poll_next/the-oldest-undelivered-value-is-yielded-unchanged-and-removed]
                old(w).queue.len() == 0 ==> final(w).queue == old(w).queue && (r == Poll::Ready(None::<T>) || (r is Pending && final(self).shared_state.waker is Some && final(self).shared_state.waker->0.id() == old(cx).waker_id())), // [C02/legacy-stream/poll_next/pending-only-with-the-polling-tasks-waker-registered-in-the-same-critical-section]
                poll_next_section(old(self).shared_state, final(self).shared_state, *old(w), *final(w), old(cx).waker_id(), r),
//@bind send Some\((\w+)\)\s*=\s*\w+(?:\.\w+)*\.send_request\.take\(\)|\.send_request\.take\(\)\s*\{\s*Some\((\w+)\)\s*=>
//@rule X6.world * s/\b$send\(\)/$send.call(Tracked(w))/
//@end
    }

    pub open spec fn resolve_section<T>(c1: WeakState<SharedState<T>>, c2: WeakState<SharedState<T>>, w1: LW, w2: LW, v: T, r: Result<(), ()>) -> bool {
        &&& c2.alive == c1.alive
        &&& (!c1.alive ==> r is Err && c2 == c1 && w2 == w1)
        &&& (c1.alive ==> r is Ok && w2.queue == w1.queue.push(val_id(v)) && c2.target.waker is None && w2.sent == w1.sent
                && w2.woken == (if c1.target.waker is Some { w1.woken.push(c1.target.waker->0.id()) } else { w1.woken }))
    }

//@extract id=legacy::stream_from_shell::resolve-callback file=crux_core/src/capability/shell_stream.rs within="impl<Op, Ev> crate::capability::CapabilityContext<Op, Ev>" item="fn stream_from_shell" closure="Request::resolves_many_times\(operation,\s*" props=C02+C06+C13
//@expect move |$x|
//@sig pub fn resolve_callback<T>(callback_shared_state: &mut WeakState<SharedState<T>>, sender: &Sender<T>, Tracked(w): Tracked<&mut LW>, $x: T) -> (r: Result<(), ()>)
//@contract
        ensures
            !old(callback_shared_state).alive ==> r is Err && *final(callback_shared_state) == *old(callback_shared_state) && *final(w) == *old(w), // [C02+C06+C13/legacy-stream/resolve/after-the-consumer-has-ended-a-resolution-is-rejected-and-never-delivered-the-callback-does-not-own-the-shared-state]
            old(callback_shared_state).alive ==> r is Ok && final(w).queue == old(w).queue.push(val_id($x)), // [C02/legacy-stream/resolve/the-value-is-queued-exactly-once-behind-the-earlier-ones]
            old(callback_shared_state).alive && old(callback_shared_state).target.waker is Some ==> final(w).woken == old(w).woken.push(old(callback_shared_state).target.waker->0.id()) && final(callback_shared_state).target.waker is None, // [C02/legacy-stream/resolve/a-registered-waker-is-woken-exactly-once-in-the-same-critical-section]
            resolve_section(*old(callback_shared_state), *final(callback_shared_state), *old(w), *final(w), $x, r),
//@rule X4.weak 1 s/let mut (\w+)(?:: [^=]+)? = \w+\.lock\(\)\.unwrap\(\);/let \1 = &mut callback_shared_state.target;/
//@end

    /// Stream arity: for EVERY acquisition state with an empty queue - a Pending poll followed by two
    /// resolutions wakes the polling task and the next two polls yield the two values once each, in
    /// the order they were resolved.
    pub proof fn lemma_stream_protocol<T>(s0: SharedState<T>, s1: SharedState<T>, s2: SharedState<T>, s3: SharedState<T>, s4: SharedState<T>, s5: SharedState<T>,
        w0: LW, w1: LW, w2: LW, w3: LW, w4: LW, w5: LW, cx: int, r1: Poll<Option<T>>, r4: Poll<Option<T>>, r5: Poll<Option<T>>, a: T, b: T, ra: Result<(), ()>, rb: Result<(), ()>)
        requires
            w0.queue.len() == 0,
            poll_next_section(s0, s1, w0, w1, cx, r1),
            r1 is Pending,
            resolve_section(WeakState { alive: true, target: s1 }, WeakState { alive: true, target: s2 }, w1, w2, a, ra),
            resolve_section(WeakState { alive: true, target: s2 }, WeakState { alive: true, target: s3 }, w2, w3, b, rb),
            poll_next_section(s3, s4, w3, w4, cx, r4),
            poll_next_section(s4, s5, w4, w5, cx, r5),
        ensures
            ra is Ok && rb is Ok,
            w3.woken == w0.woken.push(cx), // [C02/legacy-stream/lemma/the-waiting-task-is-woken-once-by-the-first-resolution]
            r4 matches Poll::Ready(Some(x)) && val_id(x) == val_id(a), // [C02/legacy-stream/lemma/first-resolved-first-yielded]
            r5 matches Poll::Ready(Some(y)) && val_id(y) == val_id(b), // [C02/legacy-stream/lemma/second-resolved-second-yielded]
            w5.queue.len() == 0, // [C02/legacy-stream/lemma/each-value-yielded-once]
    {
        assert(w2.queue =~= seq![val_id(a)]);
        assert(w3.queue =~= seq![val_id(a), val_id(b)]);
        assert(w4.queue =~= seq![val_id(b)]);
    }
}

} // verus!

fn main() {}
