// Unit B (C14): the thin wrappers through which an app describes a request - crux_http::Request's
// body setters (request.rs) and the body / content-type / query setters of both RequestBuilders
// (command.rs, request_builder.rs) - extracted verbatim on every run. http-types does the work
// (Body::from_json/from_string/from_form, Request::set_body/set_content_type/set_query): each is an
// uninterpreted state transformer. What is decided is crux's own step: every setter hands exactly
// the value the app gave to exactly one http-types call and touches nothing else - so the
// documented content type, the encoding of the body and of the query are http-types', not crux's.
use vstd::prelude::*;

verus! {

/// http_types::Request (opaque state)
#[verifier::external_body]
pub struct HttpReq { _p: u8 }
/// http_types::Body / Mime (opaque values)
#[verifier::external_body]
pub struct Body { _p: u8 }
#[verifier::external_body]
pub struct Mime { _p: u8 }
#[verifier::external_body]
pub struct HttpTypesError { _p: u8 }
//@extract id=HttpError file=crux_http/src/error.rs item="enum HttpError"
//@end
pub struct StatusCode { pub code: u16 }
pub mod http_types { pub use super::StatusCode; }
pub type CrateResult<T> = core::result::Result<T, HttpError>;
impl From<HttpTypesError> for HttpError {
    // ASSUMED (crux_http/src/error.rs: From<http_types::Error>)
    #[verifier::external_body]
    fn from(e: HttpTypesError) -> (r: HttpError) { unimplemented!() }
}

/// the state transformers of http-types (uninterpreted)
pub uninterp spec fn set_body_s(r: HttpReq, b: Body) -> HttpReq;
pub uninterp spec fn set_content_type_s(r: HttpReq, m: Mime) -> HttpReq;
pub uninterp spec fn set_query_s<Q>(r: HttpReq, q: Q) -> core::result::Result<HttpReq, HttpTypesError>;
pub uninterp spec fn json_body_s<T>(t: T) -> core::result::Result<Body, HttpTypesError>;
pub uninterp spec fn form_body_s<T>(t: T) -> core::result::Result<Body, HttpTypesError>;
pub uninterp spec fn string_body_s(s: Seq<char>) -> Body;
pub uninterp spec fn bytes_body_s(b: Seq<u8>) -> Body;

/// `impl Into<Body>`: what a value becomes as a body
pub trait IntoBody: Sized {
    spec fn as_body(&self) -> Body;
    // ASSUMED (From<..> for http_types::Body)
    fn into_body(self) -> (r: Body)
        ensures r == self.as_body();
}
impl IntoBody for Body {
    open spec fn as_body(&self) -> Body { *self }
    fn into_body(self) -> (r: Body) { self }
}
/// serde_json::Value as a body (`From<serde_json::Value> for Body`)
#[verifier::external_body]
pub struct JsonValue { _p: u8 }
pub uninterp spec fn value_body_s(v: JsonValue) -> Body;
impl IntoBody for JsonValue {
    open spec fn as_body(&self) -> Body { value_body_s(*self) }
    #[verifier::external_body]
    fn into_body(self) -> (r: Body) { unimplemented!() }
}
/// serde_json, as far as a changed body might reach for it
pub mod serde_json {
    #[verifier::external_body]
    pub struct Error { _p: u8 }
    pub uninterp spec fn to_value_s<T>(t: T) -> core::result::Result<super::JsonValue, Error>;
    // ASSUMED (serde_json::to_value)
    #[verifier::external_body]
    pub fn to_value<T>(t: &T) -> (r: core::result::Result<super::JsonValue, Error>)
        ensures r == to_value_s(*t),
    { unimplemented!() }
}
impl From<serde_json::Error> for HttpError {
    // ASSUMED (crux_http/src/error.rs: From<serde_json::Error>)
    #[verifier::external_body]
    fn from(e: serde_json::Error) -> (r: HttpError) { unimplemented!() }
}
impl Clone for Mime {
    #[verifier::external_body]
    fn clone(&self) -> (r: Self)
        ensures r == *self,
    { unimplemented!() }
}
impl Body {
    pub uninterp spec fn mime_s(&self) -> Mime;
    #[verifier::external_body]
    pub fn mime(&self) -> (r: &Mime)
        ensures *r == self.mime_s(),
    { unimplemented!() }
    // ASSUMED (http-types): the JSON encoding of the value with content type application/json, or the serializer's error
    #[verifier::external_body]
    pub fn from_json<T>(json: &T) -> (r: core::result::Result<Body, HttpTypesError>)
        ensures r == json_body_s(*json),
    { unimplemented!() }
    #[verifier::external_body]
    pub fn from_form<T>(form: &T) -> (r: core::result::Result<Body, HttpTypesError>)
        ensures r == form_body_s(*form),
    { unimplemented!() }
    #[verifier::external_body]
    pub fn from_string(s: String) -> (r: Body)
        ensures r == string_body_s(s@),
    { unimplemented!() }
    #[verifier::external_body]
    pub fn from(b: &[u8]) -> (r: Body)
        ensures r == bytes_body_s(b@),
    { unimplemented!() }
}
impl HttpReq {
    // ASSUMED (http-types Request::set_body / set_content_type / set_query): one state transformer each
    #[verifier::external_body]
    pub fn set_body<B: IntoBody>(&mut self, body: B)
        ensures *final(self) == set_body_s(*old(self), body.as_body()),
    { unimplemented!() }
    #[verifier::external_body]
    pub fn set_content_type(&mut self, mime: Mime)
        ensures *final(self) == set_content_type_s(*old(self), mime),
    { unimplemented!() }
    #[verifier::external_body]
    pub fn set_query<Q>(&mut self, query: &Q) -> (r: core::result::Result<(), HttpTypesError>)
        ensures match r { Ok(_) => set_query_s(*old(self), *query) == Ok::<HttpReq, HttpTypesError>(*final(self)), Err(e) => set_query_s(*old(self), *query) == Err::<HttpReq, HttpTypesError>(e) && *final(self) == *old(self) },
    { unimplemented!() }
}
/// per-request middleware (opaque)
#[verifier::external_body]
pub struct MwVec { _p: u8 }

//@extract id=Request file=crux_http/src/request.rs item="struct Request"
//@rule X5.http-request 1 s/req: http_types::Request,/pub req: HttpReq,/
//@rule X5.middleware 1 s/middleware: Option<Vec<Arc<dyn Middleware>>>,/pub middleware: Option<MwVec>,/
//@end

impl Request {
//@extract id=Request::set_body file=crux_http/src/request.rs within="impl Request" item="fn set_body" props=C14
//@expect pub fn set_body(&mut self, body: impl Into<Body>)
//@sig pub fn set_body<B: IntoBody>(&mut self, body: B)
//@contract
        ensures final(self).req == set_body_s(old(self).req, body.as_body()) && final(self).middleware == old(self).middleware, // [C14/Request::set_body/the-body-goes-to-http-types-once-and-nothing-else-is-touched]
//@rule X7.into-body * s/\bbody\.into\(\)/body.into_body()/
//@end
//@extract id=Request::set_content_type file=crux_http/src/request.rs within="impl Request" item="fn set_content_type" props=C14
//@expect pub fn set_content_type(&mut self, mime: Mime)
//@sig pub fn set_content_type(&mut self, mime: Mime)
//@contract
        ensures final(self).req == set_content_type_s(old(self).req, mime) && final(self).middleware == old(self).middleware, // [C14/Request::set_content_type/the-content-type-the-app-gave-and-nothing-else]
//@end
//@extract id=Request::set_query file=crux_http/src/request.rs within="impl Request" item="fn set_query" props=C14
//@expect pub fn set_query(&mut self, query: &impl Serialize) -> crate::Result<()>
//@sig pub fn set_query<Q>(&mut self, query: &Q) -> (r: CrateResult<()>)
//@contract
        ensures
            r is Ok ==> set_query_s(old(self).req, *query) == Ok::<HttpReq, HttpTypesError>(final(self).req), // [C14/Request::set_query/the-query-the-app-gave-encoded-by-http-types-once]
            r is Err ==> set_query_s(old(self).req, *query) is Err && final(self).req == old(self).req,
            final(self).middleware == old(self).middleware,
//@end
//@extract id=Request::body_json file=crux_http/src/request.rs within="impl Request" item="fn body_json" props=C14
//@expect pub fn body_json(&mut self, json: &impl Serialize) -> crate::Result<()>
//@sig pub fn body_json<T>(&mut self, json: &T) -> (r: CrateResult<()>)
//@contract
        ensures
            r is Ok ==> json_body_s(*json) is Ok && final(self).req == set_body_s(old(self).req, json_body_s(*json)->Ok_0), // [C14/Request::body_json/the-json-body-http-types-builds-from-exactly-this-value]
            r is Err ==> json_body_s(*json) is Err && *final(self) == *old(self), // [C14/Request::body_json/a-value-that-does-not-serialize-is-an-error-value-and-changes-nothing]
            final(self).middleware == old(self).middleware,
//@end
//@extract id=Request::body_string file=crux_http/src/request.rs within="impl Request" item="fn body_string" props=C14
//@expect pub fn body_string(&mut self, string: String)
//@sig pub fn body_string(&mut self, string: String)
//@contract
        ensures final(self).req == set_body_s(old(self).req, string_body_s(string@)) && final(self).middleware == old(self).middleware, // [C14/Request::body_string/the-string-body-http-types-builds-from-exactly-this-string]
//@end
//@extract id=Request::body_bytes file=crux_http/src/request.rs within="impl Request" item="fn body_bytes" props=C14
//@expect pub fn body_bytes(&mut self, bytes: impl AsRef<[u8]>)
//@sig pub fn body_bytes(&mut self, bytes: &[u8])
//@contract
        ensures final(self).req == set_body_s(old(self).req, bytes_body_s(bytes@)) && final(self).middleware == old(self).middleware, // [C14/Request::body_bytes/the-byte-body-http-types-builds-from-exactly-these-bytes]
//@rule X7.as-ref 1 s/bytes\.as_ref\(\)/bytes/
//@end
//@extract id=Request::body_form file=crux_http/src/request.rs within="impl Request" item="fn body_form" props=C14
//@expect pub fn body_form(&mut self, form: &impl Serialize) -> crate::Result<()>
//@sig pub fn body_form<T>(&mut self, form: &T) -> (r: CrateResult<()>)
//@contract
        ensures
            r is Ok ==> form_body_s(*form) is Ok && final(self).req == set_body_s(old(self).req, form_body_s(*form)->Ok_0), // [C14/Request::body_form/the-form-body-http-types-builds-from-exactly-this-value]
            r is Err ==> form_body_s(*form) is Err && *final(self) == *old(self),
            final(self).middleware == old(self).middleware,
//@end
}

// ------------------------------------------------------------------ crux_http/src/command.rs
pub mod command_api {
    use super::*;
    #[verifier::external_body]
    pub struct Rest { _p: u8 }
    /// the builder: the request under construction and everything else (expectation, capability: untouched by the setters)
    pub struct RequestBuilder { pub req: Option<Request>, pub rest: Rest }

    impl RequestBuilder {
//@extract id=command_api::body file=crux_http/src/command.rs within="impl<Effect, Event, ExpectBody> RequestBuilder<Effect, Event, ExpectBody>" item="fn body" props=C14
//@expect pub fn body(mut self, body: impl Into<Body>) -> Self
//@sig pub fn body<B: IntoBody>(self, body: B) -> (r: Self)
//@contract
            requires self.req is Some,
            ensures r.req == Some(Request { req: set_body_s(self.req->Some_0.req, body.as_body()), middleware: self.req->Some_0.middleware }) && r.rest == self.rest, // [C14/command_api-body/exactly-the-body-the-app-gave-set-once-nothing-else-touched]
//@rule X19.mut-self * s/\bself\b/this/
//@entry
            let mut this = self;
//@end
//@extract id=command_api::content_type file=crux_http/src/command.rs within="impl<Effect, Event, ExpectBody> RequestBuilder<Effect, Event, ExpectBody>" item="fn content_type" props=C14
//@expect pub fn content_type(mut self, content_type: impl Into<Mime>) -> Self
//@sig pub fn content_type(self, content_type: Mime) -> (r: Self)
//@contract
            requires self.req is Some,
            ensures r.req == Some(Request { req: set_content_type_s(self.req->Some_0.req, content_type), middleware: self.req->Some_0.middleware }) && r.rest == self.rest, // [C14/command_api-content_type/exactly-the-content-type-the-app-gave]
//@rule X19.mut-self * s/\bself\b/this/
//@rule X7.into 1 s/content_type\.into\(\)/content_type/
//@entry
            let mut this = self;
//@end
//@extract id=command_api::query file=crux_http/src/command.rs within="impl<Effect, Event, ExpectBody> RequestBuilder<Effect, Event, ExpectBody>" item="fn query" props=C14
//@expect pub fn query(mut self, query: &impl Serialize) -> std::result::Result<Self, HttpError>
//@sig pub fn query<Q>(self, query: &Q) -> (r: core::result::Result<Self, HttpError>)
//@contract
            requires self.req is Some,
            ensures
                r matches Ok(b) ==> b.req is Some && set_query_s(self.req->Some_0.req, *query) == Ok::<HttpReq, HttpTypesError>(b.req->Some_0.req) && b.req->Some_0.middleware == self.req->Some_0.middleware && b.rest == self.rest, // [C14/command_api-query/exactly-the-query-the-app-gave-encoded-once]
                r is Err ==> set_query_s(self.req->Some_0.req, *query) is Err,
//@rule X19.mut-self * s/\bself\b/this/
//@entry
            let mut this = self;
//@end
//@extract id=command_api::body_json file=crux_http/src/command.rs within="impl<Effect, Event, ExpectBody> RequestBuilder<Effect, Event, ExpectBody>" item="fn body_json" props=C14
//@expect pub fn body_json(self, json: &impl Serialize) -> crate::Result<Self>
//@sig pub fn body_json<T>(self, json: &T) -> (r: CrateResult<Self>)
//@contract
            requires self.req is Some,
            ensures
                r matches Ok(b) ==> json_body_s(*json) is Ok && b.req == Some(Request { req: set_body_s(self.req->Some_0.req, json_body_s(*json)->Ok_0), middleware: self.req->Some_0.middleware }) && b.rest == self.rest, // [C14/command_api-body_json/the-json-body-http-types-builds-from-exactly-this-value-and-nothing-re-encoded]
                r is Err ==> json_body_s(*json) is Err, // [C14/command_api-body_json/an-error-only-when-the-value-does-not-serialize]
//@end
//@extract id=command_api::body_string file=crux_http/src/command.rs within="impl<Effect, Event, ExpectBody> RequestBuilder<Effect, Event, ExpectBody>" item="fn body_string" props=C14
//@expect pub fn body_string(self, string: String) -> Self
//@sig pub fn body_string(self, string: String) -> (r: Self)
//@contract
            requires self.req is Some,
            ensures r.req == Some(Request { req: set_body_s(self.req->Some_0.req, string_body_s(string@)), middleware: self.req->Some_0.middleware }) && r.rest == self.rest, // [C14/command_api-body_string/the-string-body-http-types-builds-from-exactly-this-string]
//@end
//@extract id=command_api::body_bytes file=crux_http/src/command.rs within="impl<Effect, Event, ExpectBody> RequestBuilder<Effect, Event, ExpectBody>" item="fn body_bytes" props=C14
//@expect pub fn body_bytes(self, bytes: impl AsRef<[u8]>) -> Self
//@sig pub fn body_bytes(self, bytes: &[u8]) -> (r: Self)
//@contract
            requires self.req is Some,
            ensures r.req == Some(Request { req: set_body_s(self.req->Some_0.req, bytes_body_s(bytes@)), middleware: self.req->Some_0.middleware }) && r.rest == self.rest, // [C14/command_api-body_bytes/the-byte-body-http-types-builds-from-exactly-these-bytes]
//@rule X7.as-ref 1 s/bytes\.as_ref\(\)/bytes/
//@end
//@extract id=command_api::body_form file=crux_http/src/command.rs within="impl<Effect, Event, ExpectBody> RequestBuilder<Effect, Event, ExpectBody>" item="fn body_form" props=C14
//@expect pub fn body_form(self, form: &impl Serialize) -> crate::Result<Self>
//@sig pub fn body_form<T>(self, form: &T) -> (r: CrateResult<Self>)
//@contract
            requires self.req is Some,
            ensures
                r matches Ok(b) ==> form_body_s(*form) is Ok && b.req == Some(Request { req: set_body_s(self.req->Some_0.req, form_body_s(*form)->Ok_0), middleware: self.req->Some_0.middleware }) && b.rest == self.rest, // [C14/command_api-body_form/the-form-body-http-types-builds-from-exactly-this-value]
                r is Err ==> form_body_s(*form) is Err,
//@end
    }
}

// ------------------------------------------------------------------ crux_http/src/request_builder.rs
pub mod capability_api {
    use super::*;
    #[verifier::external_body]
    pub struct Rest { _p: u8 }
    /// the builder: the request under construction and everything else (expectation, capability: untouched by the setters)
    pub struct RequestBuilder { pub req: Option<Request>, pub rest: Rest }

    impl RequestBuilder {
//@extract id=capability_api::body file=crux_http/src/request_builder.rs within="impl<Event, ExpectBody> RequestBuilder<Event, ExpectBody>" item="fn body" props=C14
//@expect pub fn body(mut self, body: impl Into<Body>) -> Self
//@sig pub fn body<B: IntoBody>(self, body: B) -> (r: Self)
//@contract
            requires self.req is Some,
            ensures r.req == Some(Request { req: set_body_s(self.req->Some_0.req, body.as_body()), middleware: self.req->Some_0.middleware }) && r.rest == self.rest, // [C14/capability_api-body/exactly-the-body-the-app-gave-set-once-nothing-else-touched]
//@rule X19.mut-self * s/\bself\b/this/
//@entry
            let mut this = self;
//@end
//@extract id=capability_api::content_type file=crux_http/src/request_builder.rs within="impl<Event, ExpectBody> RequestBuilder<Event, ExpectBody>" item="fn content_type" props=C14
//@expect pub fn content_type(mut self, content_type: impl Into<Mime>) -> Self
//@sig pub fn content_type(self, content_type: Mime) -> (r: Self)
//@contract
            requires self.req is Some,
            ensures r.req == Some(Request { req: set_content_type_s(self.req->Some_0.req, content_type), middleware: self.req->Some_0.middleware }) && r.rest == self.rest, // [C14/capability_api-content_type/exactly-the-content-type-the-app-gave]
//@rule X19.mut-self * s/\bself\b/this/
//@rule X7.into 1 s/content_type\.into\(\)/content_type/
//@entry
            let mut this = self;
//@end
//@extract id=capability_api::query file=crux_http/src/request_builder.rs within="impl<Event, ExpectBody> RequestBuilder<Event, ExpectBody>" item="fn query" props=C14
//@expect pub fn query(mut self, query: &impl Serialize) -> std::result::Result<Self, HttpError>
//@sig pub fn query<Q>(self, query: &Q) -> (r: core::result::Result<Self, HttpError>)
//@contract
            requires self.req is Some,
            ensures
                r matches Ok(b) ==> b.req is Some && set_query_s(self.req->Some_0.req, *query) == Ok::<HttpReq, HttpTypesError>(b.req->Some_0.req) && b.req->Some_0.middleware == self.req->Some_0.middleware && b.rest == self.rest, // [C14/capability_api-query/exactly-the-query-the-app-gave-encoded-once]
                r is Err ==> set_query_s(self.req->Some_0.req, *query) is Err,
//@rule X19.mut-self * s/\bself\b/this/
//@entry
            let mut this = self;
//@end
//@extract id=capability_api::body_json file=crux_http/src/request_builder.rs within="impl<Event, ExpectBody> RequestBuilder<Event, ExpectBody>" item="fn body_json" props=C14
//@expect pub fn body_json(self, json: &impl Serialize) -> crate::Result<Self>
//@sig pub fn body_json<T>(self, json: &T) -> (r: CrateResult<Self>)
//@contract
            requires self.req is Some,
            ensures
                r matches Ok(b) ==> json_body_s(*json) is Ok && b.req == Some(Request { req: set_body_s(self.req->Some_0.req, json_body_s(*json)->Ok_0), middleware: self.req->Some_0.middleware }) && b.rest == self.rest, // [C14/capability_api-body_json/the-json-body-http-types-builds-from-exactly-this-value-and-nothing-re-encoded]
                r is Err ==> json_body_s(*json) is Err, // [C14/capability_api-body_json/an-error-only-when-the-value-does-not-serialize]
//@end
//@extract id=capability_api::body_string file=crux_http/src/request_builder.rs within="impl<Event, ExpectBody> RequestBuilder<Event, ExpectBody>" item="fn body_string" props=C14
//@expect pub fn body_string(self, string: String) -> Self
//@sig pub fn body_string(self, string: String) -> (r: Self)
//@contract
            requires self.req is Some,
            ensures r.req == Some(Request { req: set_body_s(self.req->Some_0.req, string_body_s(string@)), middleware: self.req->Some_0.middleware }) && r.rest == self.rest, // [C14/capability_api-body_string/the-string-body-http-types-builds-from-exactly-this-string]
//@end
//@extract id=capability_api::body_bytes file=crux_http/src/request_builder.rs within="impl<Event, ExpectBody> RequestBuilder<Event, ExpectBody>" item="fn body_bytes" props=C14
//@expect pub fn body_bytes(self, bytes: impl AsRef<[u8]>) -> Self
//@sig pub fn body_bytes(self, bytes: &[u8]) -> (r: Self)
//@contract
            requires self.req is Some,
            ensures r.req == Some(Request { req: set_body_s(self.req->Some_0.req, bytes_body_s(bytes@)), middleware: self.req->Some_0.middleware }) && r.rest == self.rest, // [C14/capability_api-body_bytes/the-byte-body-http-types-builds-from-exactly-these-bytes]
//@rule X7.as-ref 1 s/bytes\.as_ref\(\)/bytes/
//@end
//@extract id=capability_api::body_form file=crux_http/src/request_builder.rs within="impl<Event, ExpectBody> RequestBuilder<Event, ExpectBody>" item="fn body_form" props=C14
//@expect pub fn body_form(self, form: &impl Serialize) -> crate::Result<Self>
//@sig pub fn body_form<T>(self, form: &T) -> (r: CrateResult<Self>)
//@contract
            requires self.req is Some,
            ensures
                r matches Ok(b) ==> form_body_s(*form) is Ok && b.req == Some(Request { req: set_body_s(self.req->Some_0.req, form_body_s(*form)->Ok_0), middleware: self.req->Some_0.middleware }) && b.rest == self.rest, // [C14/capability_api-body_form/the-form-body-http-types-builds-from-exactly-this-value]
                r is Err ==> form_body_s(*form) is Err,
//@end
    }
}

} // verus!

fn main() {}
