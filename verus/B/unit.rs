// Unit B (C14): the thin wrappers through which an app describes a request - crux_http::Request's
// body setters (request.rs) and the body / content-type / query setters of both RequestBuilders
// (command.rs, request_builder.rs) - extracted verbatim on every run. http-types does the work
// (Body::from_json/from_string/from_form, Request::set_body/set_content_type/set_query): each is an
// uninterpreted state transformer. What is decided is crux's own step: every setter hands exactly
// the value the app gave to exactly one http-types call and touches nothing else - so the
// documented content type, the encoding of the body and of the query are http-types', not crux's.
use vstd::prelude::*;

verus! {

/// http_types::Request (opaque state)
#[verifier::external_body]
pub struct HttpReq { _p: u8 }
/// http_types::Body / Mime (opaque values)
#[verifier::external_body]
pub struct Body { _p: u8 }
#[verifier::external_body]
pub struct Mime { _p: u8 }
#[verifier::external_body]
pub struct HttpTypesError { _p: u8 }
//@extract id=HttpError file=crux_http/src/error.rs item="enum HttpError"
//@end
pub struct StatusCode { pub code: u16 }
pub mod http_types { pub use super::StatusCode; }
pub type CrateResult<T> = core::result::Result<T, HttpError>;
impl From<HttpTypesError> for HttpError {
    // ASSUMED (crux_http/src/error.rs: From<http_types::Error>)
    #[verifier::external_body]
    fn from(e: HttpTypesError) -> (r: HttpError) { unimplemented!() }
}

/// the state transformers of http-types (uninterpreted)
pub uninterp spec fn set_body_s(r: HttpReq, b: Body) -> HttpReq;
pub uninterp spec fn set_content_type_s(r: HttpReq, m: Mime) -> HttpReq;
pub uninterp spec fn set_query_s<Q>(r: HttpReq, q: Q) -> core::result::Result<HttpReq, HttpTypesError>;
pub uninterp spec fn json_body_s<T>(t: T) -> core::result::Result<Body, HttpTypesError>;
pub uninterp spec fn form_body_s<T>(t: T) -> core::result::Result<Body, HttpTypesError>;
pub uninterp spec fn string_body_s(s: Seq<char>) -> Body;
pub uninterp spec fn bytes_body_s(b: Seq<u8>) -> Body;

/// `impl Into<Body>`: what a value becomes as a body
pub trait IntoBody: Sized {
    spec fn as_body(&self) -> Body;
    // ASSUMED (From<..> for http_types::Body)
    fn into_body(self) -> (r: Body)
        ensures r == self.as_body();
}
impl IntoBody for Body {
    open spec fn as_body(&self) -> Body { *self }
    fn into_body(self) -> (r: Body) { self }
}
/// serde_json::Value as a body (`From<serde_json::Value> for Body`)
#[verifier::external_body]
pub struct JsonValue { _p: u8 }
pub uninterp spec fn value_body_s(v: JsonValue) -> Body;
impl IntoBody for JsonValue {
    open spec fn as_body(&self) -> Body { value_body_s(*self) }
    #[verifier::external_body]
    fn into_body(self) -> (r: Body) { unimplemented!() }
}
/// serde_json, as far as a changed body might reach for it
pub mod serde_json {
    #[verifier::external_body]
    pub struct Error { _p: u8 }
    pub uninterp spec fn to_value_s<T>(t: T) -> core::result::Result<super::JsonValue, Error>;
    // ASSUMED (serde_json::to_value)
    #[verifier::external_body]
    pub fn to_value<T>(t: &T) -> (r: core::result::Result<super::JsonValue, Error>)
        ensures r == to_value_s(*t),
    { unimplemented!() }
}
impl From<serde_json::Error> for HttpError {
    // ASSUMED (crux_http/src/error.rs: From<serde_json::Error>)
    #[verifier::external_body]
    fn from(e: serde_json::Error) -> (r: HttpError) { unimplemented!() }
}
impl Clone for Mime {
    #[verifier::external_body]
    fn clone(&self) -> (r: Self)
        ensures r == *self,
    { unimplemented!() }
}
impl Body {
    pub uninterp spec fn mime_s(&self) -> Mime;
    #[verifier::external_body]
    pub fn mime(&self) -> (r: &Mime)
        ensures *r == self.mime_s(),
    { unimplemented!() }
    // ASSUMED (http-types): the JSON encoding of the value with content type application/json, or the serializer's error
    #[verifier::external_body]
    pub fn from_json<T>(json: &T) -> (r: core::result::Result<Body, HttpTypesError>)
        ensures r == json_body_s(*json),
    { unimplemented!() }
    #[verifier::external_body]
    pub fn from_form<T>(form: &T) -> (r: core::result::Result<Body, HttpTypesError>)
        ensures r == form_body_s(*form),
    { unimplemented!() }
    #[verifier::external_body]
    pub fn from_string(s: String) -> (r: Body)
        ensures r == string_body_s(s@),
    { unimplemented!() }
    #[verifier::external_body]
    pub fn from(b: &[u8]) -> (r: Body)
        ensures r == bytes_body_s(b@),
    { unimplemented!() }
}
impl HttpReq {
    // ASSUMED (http-types Request::set_body / set_content_type / set_query): one state transformer each
    #[verifier::external_body]
    pub fn set_body<B: IntoBody>(&mut self, body: B)
        ensures *final(self) == set_body_s(*old(self), body.as_body()),
    { unimplemented!() }
    #[verifier::external_body]
    pub fn set_content_type(&mut self, mime: Mime)
        ensures *final(self) == set_content_type_s(*old(self), mime),
    { unimplemented!() }
    #[verifier::external_body]
    pub fn set_query<Q>(&mut self, query: &Q) -> (r: core::result::Result<(), HttpTypesError>)
        ensures match r { Ok(_) => set_query_s(*old(self), *query) == Ok::<HttpReq, HttpTypesError>(*final(self)), Err(e) => set_query_s(*old(self), *query) == Err::<HttpReq, HttpTypesError>(e) && *final(self) == *old(self) },
    { unimplemented!() }
}
/// http_types::headers::HeaderValues (opaque)
#[verifier::external_body]
pub struct HeaderValues { _p: u8 }
/// the header transformers of http-types (uninterpreted; N = impl Into<HeaderName>, V = impl ToHeaderValues)
pub uninterp spec fn insert_header_s<N, V>(r: HttpReq, name: N, values: V) -> HttpReq;
pub uninterp spec fn append_header_s<N, V>(r: HttpReq, name: N, values: V) -> HttpReq;
pub uninterp spec fn remove_header_s<N>(r: HttpReq, name: N) -> HttpReq;
/// the values stored under that name before the call
pub uninterp spec fn header_before_s<N>(r: HttpReq, name: N) -> Option<HeaderValues>;
impl HttpReq {
    // ASSUMED (http-types Request::insert_header / append_header / remove_header): one state transformer each
    #[verifier::external_body]
    pub fn insert_header<N, V>(&mut self, name: N, values: V) -> (r: Option<HeaderValues>)
        ensures *final(self) == insert_header_s(*old(self), name, values), r == header_before_s(*old(self), name),
    { unimplemented!() }
    #[verifier::external_body]
    pub fn append_header<N, V>(&mut self, name: N, values: V)
        ensures *final(self) == append_header_s(*old(self), name, values),
    { unimplemented!() }
    #[verifier::external_body]
    pub fn remove_header<N>(&mut self, name: N) -> (r: Option<HeaderValues>)
        ensures *final(self) == remove_header_s(*old(self), name), r == header_before_s(*old(self), name),
    { unimplemented!() }
}
/// per-request middleware (opaque)
#[verifier::external_body]
pub struct MwVec { _p: u8 }

//@extract id=Request file=crux_http/src/request.rs item="struct Request"
//@rule X5.http-request 1 s/req: http_types::Request,/pub req: HttpReq,/
//@rule X5.middleware 1 s/middleware: Option<Vec<Arc<dyn Middleware>>>,/pub middleware: Option<MwVec>,/
//@end

impl Request {
//@extract id=Request::set_body file=crux_http/src/request.rs within="impl Request" item="fn set_body" props=C14
//@expect pub fn set_body(&mut self, body: impl Into<Body>)
//@sig pub fn set_body<B: IntoBody>(&mut self, body: B)
//@contract
        ensures final(self).req == set_body_s(old(self).req, body.as_body()) && final(self).middleware == old(self).middleware, // [C14/Request::set_body/the-body-goes-to-http-types-once-and-nothing-else-is-touched]
//@rule X7.into-body * s/\bbody\.into\(\)/body.into_body()/
//@end
//@extract id=Request::set_content_type file=crux_http/src/request.rs within="impl Request" item="fn set_content_type" props=C14
//@expect pub fn set_content_type(&mut self, mime: Mime)
//@sig pub fn set_content_type(&mut self, mime: Mime)
//@contract
        ensures final(self).req == set_content_type_s(old(self).req, mime) && final(self).middleware == old(self).middleware, // [C14/Request::set_content_type/the-content-type-the-app-gave-and-nothing-else]
//@end
//@extract id=Request::set_query file=crux_http/src/request.rs within="impl Request" item="fn set_query" props=C14
//@expect pub fn set_query(&mut self, query: &impl Serialize) -> crate::Result<()>
//@sig pub fn set_query<Q>(&mut self, query: &Q) -> (r: CrateResult<()>)
//@contract
        ensures
            r is Ok ==> set_query_s(old(self).req, *query) == Ok::<HttpReq, HttpTypesError>(final(self).req), // [C14/Request::set_query/the-query-the-app-gave-encoded-by-http-types-once]
            r is Err ==> set_query_s(old(self).req, *query) is Err && final(self).req == old(self).req,
            final(self).middleware == old(self).middleware,
//@end
//@extract id=Request::insert_header file=crux_http/src/request.rs within="impl Request" item="fn insert_header" props=C14
//@expect pub fn insert_header( &mut self, name: impl Into<HeaderName>, values: impl ToHeaderValues, ) -> Option<HeaderValues>
//@sig pub fn insert_header<N, V>(&mut self, name: N, values: V) -> (r: Option<HeaderValues>)
//@contract
        ensures final(self).req == insert_header_s(old(self).req, name, values) && r == header_before_s(old(self).req, name) && final(self).middleware == old(self).middleware, // [C14/Request::insert_header/exactly-this-name-and-these-values-replace-the-header-once-nothing-else-touched]
//@end
//@extract id=Request::append_header file=crux_http/src/request.rs within="impl Request" item="fn append_header" props=C14
//@expect pub fn append_header(&mut self, name: impl Into<HeaderName>, values: impl ToHeaderValues)
//@sig pub fn append_header<N, V>(&mut self, name: N, values: V)
//@contract
        ensures final(self).req == append_header_s(old(self).req, name, values) && final(self).middleware == old(self).middleware, // [C14/Request::append_header/exactly-these-values-are-appended-under-this-name-once-nothing-else-touched]
//@end
//@extract id=Request::remove_header file=crux_http/src/request.rs within="impl Request" item="fn remove_header" props=C14
//@expect pub fn remove_header(&mut self, name: impl Into<HeaderName>) -> Option<HeaderValues>
//@sig pub fn remove_header<N>(&mut self, name: N) -> (r: Option<HeaderValues>)
//@contract
        ensures final(self).req == remove_header_s(old(self).req, name) && r == header_before_s(old(self).req, name) && final(self).middleware == old(self).middleware, // [C14/Request::remove_header/exactly-this-header-is-removed-nothing-else-touched]
//@end
//@extract id=Request::set_header file=crux_http/src/request.rs within="impl Request" item="fn set_header" props=C14
//@expect pub fn set_header(&mut self, key: impl Into<HeaderName>, value: impl ToHeaderValues)
//@sig pub fn set_header<N, V>(&mut self, key: N, value: V)
//@contract
        ensures final(self).req == insert_header_s(old(self).req, key, value) && final(self).middleware == old(self).middleware, // [C14/Request::set_header/exactly-this-name-and-value-replace-the-header-once-nothing-else-touched]
//@end
//@extract id=Request::body_json file=crux_http/src/request.rs within="impl Request" item="fn body_json" props=C14
//@expect pub fn body_json(&mut self, json: &impl Serialize) -> crate::Result<()>
//@sig pub fn body_json<T>(&mut self, json: &T) -> (r: CrateResult<()>)
//@contract
        ensures
            r is Ok ==> json_body_s(*json) is Ok && final(self).req == set_body_s(old(self).req, json_body_s(*json)->Ok_0), // [C14/Request::body_json/the-json-body-http-types-builds-from-exactly-this-value]
            r is Err ==> json_body_s(*json) is Err && *final(self) == *old(self), // [C14/Request::body_json/a-value-that-does-not-serialize-is-an-error-value-and-changes-nothing]
            final(self).middleware == old(self).middleware,
//@end
//@extract id=Request::body_string file=crux_http/src/request.rs within="impl Request" item="fn body_string" props=C14
//@expect pub fn body_string(&mut self, string: String)
//@sig pub fn body_string(&mut self, string: String)
//@contract
        ensures final(self).req == set_body_s(old(self).req, string_body_s(string@)) && final(self).middleware == old(self).middleware, // [C14/Request::body_string/the-string-body-http-types-builds-from-exactly-this-string]
//@end
//@extract id=Request::body_bytes file=crux_http/src/request.rs within="impl Request" item="fn body_bytes" props=C14
//@expect pub fn body_bytes(&mut self, bytes: impl AsRef<[u8]>)
//@sig pub fn body_bytes(&mut self, bytes: &[u8])
//@contract
        ensures final(self).req == set_body_s(old(self).req, bytes_body_s(bytes@)) && final(self).middleware == old(self).middleware, // [C14/Request::body_bytes/the-byte-body-http-types-builds-from-exactly-these-bytes]
//@rule X7.as-ref 1 s/bytes\.as_ref\(\)/bytes/
//@end
//@extract id=Request::body_form file=crux_http/src/request.rs within="impl Request" item="fn body_form" props=C14
//@expect pub fn body_form(&mut self, form: &impl Serialize) -> crate::Result<()>
//@sig pub fn body_form<T>(&mut self, form: &T) -> (r: CrateResult<()>)
//@contract
        ensures
            r is Ok ==> form_body_s(*form) is Ok && final(self).req == set_body_s(old(self).req, form_body_s(*form)->Ok_0), // [C14/Request::body_form/the-form-body-http-types-builds-from-exactly-this-value]
            r is Err ==> form_body_s(*form) is Err && *final(self) == *old(self),
            final(self).middleware == old(self).middleware,
//@end
}

// ------------------------------------------------------------------ crux_http/src/command.rs
pub mod command_api {
    use super::*;
    #[verifier::external_body]
    pub struct Rest { _p: u8 }
    /// the builder: the request under construction and everything else (expectation, capability: untouched by the setters)
    pub struct RequestBuilder { pub req: Option<Request>, pub rest: Rest }

    impl RequestBuilder {
//@extract id=command_api::header file=crux_http/src/command.rs within="impl<Effect, Event, ExpectBody> RequestBuilder<Effect, Event, ExpectBody>" item="fn header" props=C14
//@expect pub fn header(mut self, key: impl Into<HeaderName>, value: impl ToHeaderValues) -> Self
//@sig pub fn header<N, V>(self, key: N, value: V) -> (r: Self)
//@contract
            requires self.req is Some,
            ensures r.req == Some(Request { req: insert_header_s(self.req->Some_0.req, key, value), middleware: self.req->Some_0.middleware }) && r.rest == self.rest, // [C14/command_api-header/exactly-this-name-and-value-set-once-replacing-not-adding-nothing-else-touched]
//@rule X19.mut-self * s/\bself\b/this/
//@entry
            let mut this = self;
//@end
//@extract id=command_api::body file=crux_http/src/command.rs within="impl<Effect, Event, ExpectBody> RequestBuilder<Effect, Event, ExpectBody>" item="fn body" props=C14
//@expect pub fn body(mut self, body: impl Into<Body>) -> Self
//@sig pub fn body<B: IntoBody>(self, body: B) -> (r: Self)
//@contract
            requires self.req is Some,
            ensures r.req == Some(Request { req: set_body_s(self.req->Some_0.req, body.as_body()), middleware: self.req->Some_0.middleware }) && r.rest == self.rest, // [C14/command_api-body/exactly-the-body-the-app-gave-set-once-nothing-else-touched]
//@rule X19.mut-self * s/\bself\b/this/
//@entry
            let mut this = self;
//@end
//@extract id=command_api::content_type file=crux_http/src/command.rs within="impl<Effect, Event, ExpectBody> RequestBuilder<Effect, Event, ExpectBody>" item="fn content_type" props=C14
//@expect pub fn content_type(mut self, content_type: impl Into<Mime>) -> Self
//@sig pub fn content_type(self, content_type: Mime) -> (r: Self)
//@contract
            requires self.req is Some,
            ensures r.req == Some(Request { req: set_content_type_s(self.req->Some_0.req, content_type), middleware: self.req->Some_0.middleware }) && r.rest == self.rest, // [C14/command_api-content_type/exactly-the-content-type-the-app-gave]
//@rule X19.mut-self * s/\bself\b/this/
//@rule X7.into 1 s/content_type\.into\(\)/content_type/
//@entry
            let mut this = self;
//@end
//@extract id=command_api::query file=crux_http/src/command.rs within="impl<Effect, Event, ExpectBody> RequestBuilder<Effect, Event, ExpectBody>" item="fn query" props=C14
//@expect pub fn query(mut self, query: &impl Serialize) -> std::result::Result<Self, HttpError>
//@sig pub fn query<Q>(self, query: &Q) -> (r: core::result::Result<Self, HttpError>)
//@contract
            requires self.req is Some,
            ensures
                r matches Ok(b) ==> b.req is Some && set_query_s(self.req->Some_0.req, *query) == Ok::<HttpReq, HttpTypesError>(b.req->Some_0.req) && b.req->Some_0.middleware == self.req->Some_0.middleware && b.rest == self.rest, // [C14/command_api-query/exactly-the-query-the-app-gave-encoded-once]
                r is Err ==> set_query_s(self.req->Some_0.req, *query) is Err,
//@rule X19.mut-self * s/\bself\b/this/
//@entry
            let mut this = self;
//@end
//@extract id=command_api::body_json file=crux_http/src/command.rs within="impl<Effect, Event, ExpectBody> RequestBuilder<Effect, Event, ExpectBody>" item="fn body_json" props=C14
//@expect pub fn body_json(self, json: &impl Serialize) -> crate::Result<Self>
//@sig pub fn body_json<T>(self, json: &T) -> (r: CrateResult<Self>)
//@contract
            requires self.req is Some,
            ensures
                r matches Ok(b) ==> json_body_s(*json) is Ok && b.req == Some(Request { req: set_body_s(self.req->Some_0.req, json_body_s(*json)->Ok_0), middleware: self.req->Some_0.middleware }) && b.rest == self.rest, // [C14/command_api-body_json/the-json-body-http-types-builds-from-exactly-this-value-and-nothing-re-encoded]
                r is Err ==> json_body_s(*json) is Err, // [C14/command_api-body_json/an-error-only-when-the-value-does-not-serialize]
//@end
//@extract id=command_api::body_string file=crux_http/src/command.rs within="impl<Effect, Event, ExpectBody> RequestBuilder<Effect, Event, ExpectBody>" item="fn body_string" props=C14
//@expect pub fn body_string(self, string: String) -> Self
//@sig pub fn body_string(self, string: String) -> (r: Self)
//@contract
            requires self.req is Some,
            ensures r.req == Some(Request { req: set_body_s(self.req->Some_0.req, string_body_s(string@)), middleware: self.req->Some_0.middleware }) && r.rest == self.rest, // [C14/command_api-body_string/the-string-body-http-types-builds-from-exactly-this-string]
//@end
//@extract id=command_api::body_bytes file=crux_http/src/command.rs within="impl<Effect, Event, ExpectBody> RequestBuilder<Effect, Event, ExpectBody>" item="fn body_bytes" props=C14
//@expect pub fn body_bytes(self, bytes: impl AsRef<[u8]>) -> Self
//@sig pub fn body_bytes(self, bytes: &[u8]) -> (r: Self)
//@contract
            requires self.req is Some,
            ensures r.req == Some(Request { req: set_body_s(self.req->Some_0.req, bytes_body_s(bytes@)), middleware: self.req->Some_0.middleware }) && r.rest == self.rest, // [C14/command_api-body_bytes/the-byte-body-http-types-builds-from-exactly-these-bytes]
//@rule X7.as-ref 1 s/bytes\.as_ref\(\)/bytes/
//@end
//@extract id=command_api::body_form file=crux_http/src/command.rs within="impl<Effect, Event, ExpectBody> RequestBuilder<Effect, Event, ExpectBody>" item="fn body_form" props=C14
//@expect pub fn body_form(self, form: &impl Serialize) -> crate::Result<Self>
//@sig pub fn body_form<T>(self, form: &T) -> (r: CrateResult<Self>)
//@contract
            requires self.req is Some,
            ensures
                r matches Ok(b) ==> form_body_s(*form) is Ok && b.req == Some(Request { req: set_body_s(self.req->Some_0.req, form_body_s(*form)->Ok_0), middleware: self.req->Some_0.middleware }) && b.rest == self.rest, // [C14/command_api-body_form/the-form-body-http-types-builds-from-exactly-this-value]
                r is Err ==> form_body_s(*form) is Err,
//@end
    }
}

// ------------------------------------------------------------------ crux_http/src/request_builder.rs
pub mod capability_api {
    use super::*;
    #[verifier::external_body]
    pub struct Rest { _p: u8 }
    /// the builder: the request under construction and everything else (expectation, capability: untouched by the setters)
    pub struct RequestBuilder { pub req: Option<Request>, pub rest: Rest }

    impl RequestBuilder {
//@extract id=capability_api::header file=crux_http/src/request_builder.rs within="impl<Event, ExpectBody> RequestBuilder<Event, ExpectBody>" item="fn header" props=C14
//@expect pub fn header(mut self, key: impl Into<HeaderName>, value: impl ToHeaderValues) -> Self
//@sig pub fn header<N, V>(self, key: N, value: V) -> (r: Self)
//@contract
            requires self.req is Some,
            ensures r.req == Some(Request { req: insert_header_s(self.req->Some_0.req, key, value), middleware: self.req->Some_0.middleware }) && r.rest == self.rest, // [C14/capability_api-header/exactly-this-name-and-value-set-once-replacing-not-adding-nothing-else-touched]
//@rule X19.mut-self * s/\bself\b/this/
//@entry
            let mut this = self;
//@end
//@extract id=capability_api::body file=crux_http/src/request_builder.rs within="impl<Event, ExpectBody> RequestBuilder<Event, ExpectBody>" item="fn body" props=C14
//@expect pub fn body(mut self, body: impl Into<Body>) -> Self
//@sig pub fn body<B: IntoBody>(self, body: B) -> (r: Self)
//@contract
            requires self.req is Some,
            ensures r.req == Some(Request { req: set_body_s(self.req->Some_0.req, body.as_body()), middleware: self.req->Some_0.middleware }) && r.rest == self.rest, // [C14/capability_api-body/exactly-the-body-the-app-gave-set-once-nothing-else-touched]
//@rule X19.mut-self * s/\bself\b/this/
//@entry
            let mut this = self;
//@end
//@extract id=capability_api::content_type file=crux_http/src/request_builder.rs within="impl<Event, ExpectBody> RequestBuilder<Event, ExpectBody>" item="fn content_type" props=C14
//@expect pub fn content_type(mut self, content_type: impl Into<Mime>) -> Self
//@sig pub fn content_type(self, content_type: Mime) -> (r: Self)
//@contract
            requires self.req is Some,
            ensures r.req == Some(Request { req: set_content_type_s(self.req->Some_0.req, content_type), middleware: self.req->Some_0.middleware }) && r.rest == self.rest, // [C14/capability_api-content_type/exactly-the-content-type-the-app-gave]
//@rule X19.mut-self * s/\bself\b/this/
//@rule X7.into 1 s/content_type\.into\(\)/content_type/
//@entry
            let mut this = self;
//@end
//@extract id=capability_api::query file=crux_http/src/request_builder.rs within="impl<Event, ExpectBody> RequestBuilder<Event, ExpectBody>" item="fn query" props=C14
//@expect pub fn query(mut self, query: &impl Serialize) -> std::result::Result<Self, HttpError>
//@sig pub fn query<Q>(self, query: &Q) -> (r: core::result::Result<Self, HttpError>)
//@contract
            requires self.req is Some,
            ensures
                r matches Ok(b) ==> b.req is Some && set_query_s(self.req->Some_0.req, *query) == Ok::<HttpReq, HttpTypesError>(b.req->Some_0.req) && b.req->Some_0.middleware == self.req->Some_0.middleware && b.rest == self.rest, // [C14/capability_api-query/exactly-the-query-the-app-gave-encoded-once]
                r is Err ==> set_query_s(self.req->Some_0.req, *query) is Err,
//@rule X19.mut-self * s/\bself\b/this/
//@entry
            let mut this = self;
//@end
//@extract id=capability_api::body_json file=crux_http/src/request_builder.rs within="impl<Event, ExpectBody> RequestBuilder<Event, ExpectBody>" item="fn body_json" props=C14
//@expect pub fn body_json(self, json: &impl Serialize) -> crate::Result<Self>
//@sig pub fn body_json<T>(self, json: &T) -> (r: CrateResult<Self>)
//@contract
            requires self.req is Some,
            ensures
                r matches Ok(b) ==> json_body_s(*json) is Ok && b.req == Some(Request { req: set_body_s(self.req->Some_0.req, json_body_s(*json)->Ok_0), middleware: self.req->Some_0.middleware }) && b.rest == self.rest, // [C14/capability_api-body_json/the-json-body-http-types-builds-from-exactly-this-value-and-nothing-re-encoded]
                r is Err ==> json_body_s(*json) is Err, // [C14/capability_api-body_json/an-error-only-when-the-value-does-not-serialize]
//@end
//@extract id=capability_api::body_string file=crux_http/src/request_builder.rs within="impl<Event, ExpectBody> RequestBuilder<Event, ExpectBody>" item="fn body_string" props=C14
//@expect pub fn body_string(self, string: String) -> Self
//@sig pub fn body_string(self, string: String) -> (r: Self)
//@contract
            requires self.req is Some,
            ensures r.req == Some(Request { req: set_body_s(self.req->Some_0.req, string_body_s(string@)), middleware: self.req->Some_0.middleware }) && r.rest == self.rest, // [C14/capability_api-body_string/the-string-body-http-types-builds-from-exactly-this-string]
//@end
//@extract id=capability_api::body_bytes file=crux_http/src/request_builder.rs within="impl<Event, ExpectBody> RequestBuilder<Event, ExpectBody>" item="fn body_bytes" props=C14
//@expect pub fn body_bytes(self, bytes: impl AsRef<[u8]>) -> Self
//@sig pub fn body_bytes(self, bytes: &[u8]) -> (r: Self)
//@contract
            requires self.req is Some,
            ensures r.req == Some(Request { req: set_body_s(self.req->Some_0.req, bytes_body_s(bytes@)), middleware: self.req->Some_0.middleware }) && r.rest == self.rest, // [C14/capability_api-body_bytes/the-byte-body-http-types-builds-from-exactly-these-bytes]
//@rule X7.as-ref 1 s/bytes\.as_ref\(\)/bytes/
//@end
//@extract id=capability_api::body_form file=crux_http/src/request_builder.rs within="impl<Event, ExpectBody> RequestBuilder<Event, ExpectBody>" item="fn body_form" props=C14
//@expect pub fn body_form(self, form: &impl Serialize) -> crate::Result<Self>
//@sig pub fn body_form<T>(self, form: &T) -> (r: CrateResult<Self>)
//@contract
            requires self.req is Some,
            ensures
                r matches Ok(b) ==> form_body_s(*form) is Ok && b.req == Some(Request { req: set_body_s(self.req->Some_0.req, form_body_s(*form)->Ok_0), middleware: self.req->Some_0.middleware }) && b.rest == self.rest, // [C14/capability_api-body_form/the-form-body-http-types-builds-from-exactly-this-value]
                r is Err ==> form_body_s(*form) is Err,
//@end
    }
}

// ------------------------------------------------------------------ the constructors: which method, which URL
/// http_types::Method (the nine the constructors name; every other method is `Other`)
#[derive(PartialEq, Eq, Clone, Copy)]
pub enum Method { Get, Head, Post, Put, Delete, Connect, Options, Trace, Patch, Other(u8) }
#[verifier::external_body]
pub struct Url { _p: u8 }
/// what parsing a string as a URL gives (url crate: uninterpreted)
pub uninterp spec fn url_parse_s(s: Seq<char>) -> Option<Url>;
/// http_types::Request::new(method, url): a fresh request with exactly this method and URL (uninterpreted)
pub uninterp spec fn req_new_s(m: Method, u: Url) -> HttpReq;
// ASSUMED (`url.as_ref().parse().unwrap()`): the parsed URL; panics on a malformed one (documented: "# Panics")
#[verifier::external_body]
pub fn parse_url_or_panic(url: &str) -> (r: Url)
    requires url_parse_s(url@) is Some,
    ensures url_parse_s(url@) == Some(r),
{ unimplemented!() }
impl HttpReq {
    // ASSUMED (http_types::Request::new)
    #[verifier::external_body]
    pub fn new(method: Method, url: Url) -> (r: HttpReq)
        ensures r == req_new_s(method, url),
    { unimplemented!() }
}
pub struct ExpectBytes;
impl Request {
//@extract id=Request::new file=crux_http/src/request.rs within="impl Request" item="fn new" props=C14
//@expect pub fn new(method: Method, url: Url) -> Self
//@sig pub fn new(method: Method, url: Url) -> (r: Self)
//@contract
        ensures r.req == req_new_s(method, url) && r.middleware is None, // [C14/Request::new/a-fresh-request-with-exactly-this-method-and-url-and-no-middleware]
//@rule X7.path 1 s/http_types::Request::new\(/HttpReq::new(/
//@end
}
/// the request a constructor must build for this method and URL string
pub open spec fn fresh_request(m: Method, u: Url) -> Option<Request> { Some(Request { req: req_new_s(m, u), middleware: None }) }

pub mod command_ctor {
    use super::*;
    use core::marker::PhantomData;
    // hand-declared (types only): the real fields are PhantomData<fn() -> Event> and Box<dyn ResponseExpectation + Send>
    pub struct RequestBuilder<Effect, Event> { pub req: Option<Request>, pub effect: PhantomData<Effect>, pub event: PhantomData<Event>, pub expectation: Box<ExpectBytes> }
    pub struct Http<Effect, Event> { pub effect: PhantomData<Effect>, pub event: PhantomData<Event> }
    impl<Effect, Event> RequestBuilder<Effect, Event> {
//@extract id=command_ctor::new file=crux_http/src/command.rs within="impl<Effect, Event> RequestBuilder<Effect, Event, Vec<u8>>" item="fn new" props=C14
//@expect pub(crate) fn new(method: Method, url: Url) -> Self
//@sig pub fn new(method: Method, url: Url) -> (r: Self)
//@contract
            ensures r.req == fresh_request(method, url), // [C14/command_ctor-new/the-builder-starts-from-a-fresh-request-with-exactly-this-method-and-url]
//@end
    }
    impl<Effect, Event> Http<Effect, Event> {
//@extract id=command_ctor::get file=crux_http/src/command.rs within="impl<Effect, Event> Http<Effect, Event>" item="fn get" props=C14
//@expect pub fn get(url: impl AsRef<str>) -> RequestBuilder<Effect, Event>
//@sig pub fn get(url: &str) -> (r: RequestBuilder<Effect, Event>)
//@contract
            requires url_parse_s(url@) is Some,
            ensures r.req == fresh_request(Method::Get, url_parse_s(url@)->Some_0), // [C14/command_ctor-get/a-GET-request-to-exactly-the-url-given]
//@rule X7.parse-url 1 s/url\.as_ref\(\)\.parse\(\)\.unwrap\(\)/parse_url_or_panic(url)/
//@end
//@extract id=command_ctor::head file=crux_http/src/command.rs within="impl<Effect, Event> Http<Effect, Event>" item="fn head" props=C14
//@expect pub fn head(url: impl AsRef<str>) -> RequestBuilder<Effect, Event>
//@sig pub fn head(url: &str) -> (r: RequestBuilder<Effect, Event>)
//@contract
            requires url_parse_s(url@) is Some,
            ensures r.req == fresh_request(Method::Head, url_parse_s(url@)->Some_0), // [C14/command_ctor-head/a-HEAD-request-to-exactly-the-url-given]
//@rule X7.parse-url 1 s/url\.as_ref\(\)\.parse\(\)\.unwrap\(\)/parse_url_or_panic(url)/
//@end
//@extract id=command_ctor::post file=crux_http/src/command.rs within="impl<Effect, Event> Http<Effect, Event>" item="fn post" props=C14
//@expect pub fn post(url: impl AsRef<str>) -> RequestBuilder<Effect, Event>
//@sig pub fn post(url: &str) -> (r: RequestBuilder<Effect, Event>)
//@contract
            requires url_parse_s(url@) is Some,
            ensures r.req == fresh_request(Method::Post, url_parse_s(url@)->Some_0), // [C14/command_ctor-post/a-POST-request-to-exactly-the-url-given]
//@rule X7.parse-url 1 s/url\.as_ref\(\)\.parse\(\)\.unwrap\(\)/parse_url_or_panic(url)/
//@end
//@extract id=command_ctor::put file=crux_http/src/command.rs within="impl<Effect, Event> Http<Effect, Event>" item="fn put" props=C14
//@expect pub fn put(url: impl AsRef<str>) -> RequestBuilder<Effect, Event>
//@sig pub fn put(url: &str) -> (r: RequestBuilder<Effect, Event>)
//@contract
            requires url_parse_s(url@) is Some,
            ensures r.req == fresh_request(Method::Put, url_parse_s(url@)->Some_0), // [C14/command_ctor-put/a-PUT-request-to-exactly-the-url-given]
//@rule X7.parse-url 1 s/url\.as_ref\(\)\.parse\(\)\.unwrap\(\)/parse_url_or_panic(url)/
//@end
//@extract id=command_ctor::delete file=crux_http/src/command.rs within="impl<Effect, Event> Http<Effect, Event>" item="fn delete" props=C14
//@expect pub fn delete(url: impl AsRef<str>) -> RequestBuilder<Effect, Event>
//@sig pub fn delete(url: &str) -> (r: RequestBuilder<Effect, Event>)
//@contract
            requires url_parse_s(url@) is Some,
            ensures r.req == fresh_request(Method::Delete, url_parse_s(url@)->Some_0), // [C14/command_ctor-delete/a-DELETE-request-to-exactly-the-url-given]
//@rule X7.parse-url 1 s/url\.as_ref\(\)\.parse\(\)\.unwrap\(\)/parse_url_or_panic(url)/
//@end
//@extract id=command_ctor::connect file=crux_http/src/command.rs within="impl<Effect, Event> Http<Effect, Event>" item="fn connect" props=C14
//@expect pub fn connect(url: impl AsRef<str>) -> RequestBuilder<Effect, Event>
//@sig pub fn connect(url: &str) -> (r: RequestBuilder<Effect, Event>)
//@contract
            requires url_parse_s(url@) is Some,
            ensures r.req == fresh_request(Method::Connect, url_parse_s(url@)->Some_0), // [C14/command_ctor-connect/a-CONNECT-request-to-exactly-the-url-given]
//@rule X7.parse-url 1 s/url\.as_ref\(\)\.parse\(\)\.unwrap\(\)/parse_url_or_panic(url)/
//@end
//@extract id=command_ctor::options file=crux_http/src/command.rs within="impl<Effect, Event> Http<Effect, Event>" item="fn options" props=C14
//@expect pub fn options(url: impl AsRef<str>) -> RequestBuilder<Effect, Event>
//@sig pub fn options(url: &str) -> (r: RequestBuilder<Effect, Event>)
//@contract
            requires url_parse_s(url@) is Some,
            ensures r.req == fresh_request(Method::Options, url_parse_s(url@)->Some_0), // [C14/command_ctor-options/a-OPTIONS-request-to-exactly-the-url-given]
//@rule X7.parse-url 1 s/url\.as_ref\(\)\.parse\(\)\.unwrap\(\)/parse_url_or_panic(url)/
//@end
//@extract id=command_ctor::trace file=crux_http/src/command.rs within="impl<Effect, Event> Http<Effect, Event>" item="fn trace" props=C14
//@expect pub fn trace(url: impl AsRef<str>) -> RequestBuilder<Effect, Event>
//@sig pub fn trace(url: &str) -> (r: RequestBuilder<Effect, Event>)
//@contract
            requires url_parse_s(url@) is Some,
            ensures r.req == fresh_request(Method::Trace, url_parse_s(url@)->Some_0), // [C14/command_ctor-trace/a-TRACE-request-to-exactly-the-url-given]
//@rule X7.parse-url 1 s/url\.as_ref\(\)\.parse\(\)\.unwrap\(\)/parse_url_or_panic(url)/
//@end
//@extract id=command_ctor::patch file=crux_http/src/command.rs within="impl<Effect, Event> Http<Effect, Event>" item="fn patch" props=C14
//@expect pub fn patch(url: impl AsRef<str>) -> RequestBuilder<Effect, Event>
//@sig pub fn patch(url: &str) -> (r: RequestBuilder<Effect, Event>)
//@contract
            requires url_parse_s(url@) is Some,
            ensures r.req == fresh_request(Method::Patch, url_parse_s(url@)->Some_0), // [C14/command_ctor-patch/a-PATCH-request-to-exactly-the-url-given]
//@rule X7.parse-url 1 s/url\.as_ref\(\)\.parse\(\)\.unwrap\(\)/parse_url_or_panic(url)/
//@end
//@extract id=command_ctor::request file=crux_http/src/command.rs within="impl<Effect, Event> Http<Effect, Event>" item="fn request" props=C14
//@expect pub fn request(method: Method, url: Url) -> RequestBuilder<Effect, Event>
//@sig pub fn request(method: Method, url: Url) -> (r: RequestBuilder<Effect, Event>)
//@contract
            ensures r.req == fresh_request(method, url), // [C14/command_ctor-request/exactly-the-method-and-url-given]
//@end
    }
}

pub mod capability_ctor {
    use super::*;
    use core::marker::PhantomData;
    /// crux_http::Http<Ev> (context + client: opaque)
    #[verifier::external_body]
    #[verifier::accept_recursive_types(Ev)]
    pub struct Http<Ev> { _p: PhantomData<Ev> }
    impl<Ev> Clone for Http<Ev> {
        // ASSUMED (crux_http/src/lib.rs: Clone for Http clones context and client)
        #[verifier::external_body]
        fn clone(&self) -> (r: Self)
            ensures r == *self,
        { unimplemented!() }
    }
    #[verifier::external_body]
    pub struct Client { _p: u8 }
    pub enum CapOrClient<Event> { Client(Client), Capability(Http<Event>) }
    // hand-declared (types only): the real fields are PhantomData<fn() -> Event> and Box<dyn ResponseExpectation + Send>
    pub struct RequestBuilder<Event> { pub req: Option<Request>, pub cap_or_client: CapOrClient<Event>, pub phantom: PhantomData<Event>, pub expectation: Box<ExpectBytes> }
    impl<Event> RequestBuilder<Event> {
//@extract id=capability_ctor::new file=crux_http/src/request_builder.rs within="impl<Event> RequestBuilder<Event, Vec<u8>>" item="fn new" props=C14
//@expect pub(crate) fn new(method: Method, url: Url, capability: crate::Http<Event>) -> Self
//@sig pub fn new(method: Method, url: Url, capability: Http<Event>) -> (r: Self)
//@contract
            ensures r.req == fresh_request(method, url) && r.cap_or_client == CapOrClient::Capability(capability), // [C14/capability_ctor-new/the-builder-starts-from-a-fresh-request-with-exactly-this-method-and-url-sent-through-this-capability]
//@end
    }
    impl<Ev> Http<Ev> {
//@extract id=capability_ctor::get file=crux_http/src/lib.rs within="impl<Ev> Http<Ev>" item="fn get" props=C14
//@expect pub fn get(&self, url: impl AsRef<str>) -> RequestBuilder<Ev>
//@sig pub fn get(&self, url: &str) -> (r: RequestBuilder<Ev>)
//@contract
            requires url_parse_s(url@) is Some,
            ensures r.req == fresh_request(Method::Get, url_parse_s(url@)->Some_0) && r.cap_or_client == CapOrClient::Capability(*self), // [C14/capability_ctor-get/a-GET-request-to-exactly-the-url-given]
//@rule X7.parse-url 1 s/url\.as_ref\(\)\.parse\(\)\.unwrap\(\)/parse_url_or_panic(url)/
//@end
//@extract id=capability_ctor::head file=crux_http/src/lib.rs within="impl<Ev> Http<Ev>" item="fn head" props=C14
//@expect pub fn head(&self, url: impl AsRef<str>) -> RequestBuilder<Ev>
//@sig pub fn head(&self, url: &str) -> (r: RequestBuilder<Ev>)
//@contract
            requires url_parse_s(url@) is Some,
            ensures r.req == fresh_request(Method::Head, url_parse_s(url@)->Some_0) && r.cap_or_client == CapOrClient::Capability(*self), // [C14/capability_ctor-head/a-HEAD-request-to-exactly-the-url-given]
//@rule X7.parse-url 1 s/url\.as_ref\(\)\.parse\(\)\.unwrap\(\)/parse_url_or_panic(url)/
//@end
//@extract id=capability_ctor::post file=crux_http/src/lib.rs within="impl<Ev> Http<Ev>" item="fn post" props=C14
//@expect pub fn post(&self, url: impl AsRef<str>) -> RequestBuilder<Ev>
//@sig pub fn post(&self, url: &str) -> (r: RequestBuilder<Ev>)
//@contract
            requires url_parse_s(url@) is Some,
            ensures r.req == fresh_request(Method::Post, url_parse_s(url@)->Some_0) && r.cap_or_client == CapOrClient::Capability(*self), // [C14/capability_ctor-post/a-POST-request-to-exactly-the-url-given]
//@rule X7.parse-url 1 s/url\.as_ref\(\)\.parse\(\)\.unwrap\(\)/parse_url_or_panic(url)/
//@end
//@extract id=capability_ctor::put file=crux_http/src/lib.rs within="impl<Ev> Http<Ev>" item="fn put" props=C14
//@expect pub fn put(&self, url: impl AsRef<str>) -> RequestBuilder<Ev>
//@sig pub fn put(&self, url: &str) -> (r: RequestBuilder<Ev>)
//@contract
            requires url_parse_s(url@) is Some,
            ensures r.req == fresh_request(Method::Put, url_parse_s(url@)->Some_0) && r.cap_or_client == CapOrClient::Capability(*self), // [C14/capability_ctor-put/a-PUT-request-to-exactly-the-url-given]
//@rule X7.parse-url 1 s/url\.as_ref\(\)\.parse\(\)\.unwrap\(\)/parse_url_or_panic(url)/
//@end
//@extract id=capability_ctor::delete file=crux_http/src/lib.rs within="impl<Ev> Http<Ev>" item="fn delete" props=C14
//@expect pub fn delete(&self, url: impl AsRef<str>) -> RequestBuilder<Ev>
//@sig pub fn delete(&self, url: &str) -> (r: RequestBuilder<Ev>)
//@contract
            requires url_parse_s(url@) is Some,
            ensures r.req == fresh_request(Method::Delete, url_parse_s(url@)->Some_0) && r.cap_or_client == CapOrClient::Capability(*self), // [C14/capability_ctor-delete/a-DELETE-request-to-exactly-the-url-given]
//@rule X7.parse-url 1 s/url\.as_ref\(\)\.parse\(\)\.unwrap\(\)/parse_url_or_panic(url)/
//@end
//@extract id=capability_ctor::connect file=crux_http/src/lib.rs within="impl<Ev> Http<Ev>" item="fn connect" props=C14
//@expect pub fn connect(&self, url: impl AsRef<str>) -> RequestBuilder<Ev>
//@sig pub fn connect(&self, url: &str) -> (r: RequestBuilder<Ev>)
//@contract
            requires url_parse_s(url@) is Some,
            ensures r.req == fresh_request(Method::Connect, url_parse_s(url@)->Some_0) && r.cap_or_client == CapOrClient::Capability(*self), // [C14/capability_ctor-connect/a-CONNECT-request-to-exactly-the-url-given]
//@rule X7.parse-url 1 s/url\.as_ref\(\)\.parse\(\)\.unwrap\(\)/parse_url_or_panic(url)/
//@end
//@extract id=capability_ctor::options file=crux_http/src/lib.rs within="impl<Ev> Http<Ev>" item="fn options" props=C14
//@expect pub fn options(&self, url: impl AsRef<str>) -> RequestBuilder<Ev>
//@sig pub fn options(&self, url: &str) -> (r: RequestBuilder<Ev>)
//@contract
            requires url_parse_s(url@) is Some,
            ensures r.req == fresh_request(Method::Options, url_parse_s(url@)->Some_0) && r.cap_or_client == CapOrClient::Capability(*self), // [C14/capability_ctor-options/a-OPTIONS-request-to-exactly-the-url-given]
//@rule X7.parse-url 1 s/url\.as_ref\(\)\.parse\(\)\.unwrap\(\)/parse_url_or_panic(url)/
//@end
//@extract id=capability_ctor::trace file=crux_http/src/lib.rs within="impl<Ev> Http<Ev>" item="fn trace" props=C14
//@expect pub fn trace(&self, url: impl AsRef<str>) -> RequestBuilder<Ev>
//@sig pub fn trace(&self, url: &str) -> (r: RequestBuilder<Ev>)
//@contract
            requires url_parse_s(url@) is Some,
            ensures r.req == fresh_request(Method::Trace, url_parse_s(url@)->Some_0) && r.cap_or_client == CapOrClient::Capability(*self), // [C14/capability_ctor-trace/a-TRACE-request-to-exactly-the-url-given]
//@rule X7.parse-url 1 s/url\.as_ref\(\)\.parse\(\)\.unwrap\(\)/parse_url_or_panic(url)/
//@end
//@extract id=capability_ctor::patch file=crux_http/src/lib.rs within="impl<Ev> Http<Ev>" item="fn patch" props=C14
//@expect pub fn patch(&self, url: impl AsRef<str>) -> RequestBuilder<Ev>
//@sig pub fn patch(&self, url: &str) -> (r: RequestBuilder<Ev>)
//@contract
            requires url_parse_s(url@) is Some,
            ensures r.req == fresh_request(Method::Patch, url_parse_s(url@)->Some_0) && r.cap_or_client == CapOrClient::Capability(*self), // [C14/capability_ctor-patch/a-PATCH-request-to-exactly-the-url-given]
//@rule X7.parse-url 1 s/url\.as_ref\(\)\.parse\(\)\.unwrap\(\)/parse_url_or_panic(url)/
//@end
//@extract id=capability_ctor::request file=crux_http/src/lib.rs within="impl<Ev> Http<Ev>" item="fn request" props=C14
//@expect pub fn request(&self, method: http_types::Method, url: Url) -> RequestBuilder<Ev>
//@sig pub fn request(&self, method: Method, url: Url) -> (r: RequestBuilder<Ev>)
//@contract
            ensures r.req == fresh_request(method, url) && r.cap_or_client == CapOrClient::Capability(*self), // [C14/capability_ctor-request/exactly-the-method-and-url-given]
//@end
    }
}

} // verus!

fn main() {}
