// Unit T (C19), Verus half. Generated file = this template with the //@extract blocks filled
// from /repo's working tree on every run (see lib/vf/verus.py for the directive grammar).
//
//  1. the three integer constructors and Instant::new, verbatim, as a second back end to Kani;
//  2. the four chrono TryFrom impls, verbatim bodies lifted to free functions (rule X7),
//     against ASSUMED contracts of the six chrono calls they make (Kani does not finish on
//     chrono's own arithmetic, DESIGN 4.T);
//  3. arithmetic lemmas that compose the Kani-proved Duration<->std contracts (stated in
//     div/mod form, the only form CBMC's back ends finish on) into exactness and round trips.
use vstd::prelude::*;

verus! {

// ------------------------------------------------------------------ real types (extracted)
//@extract id=duration.consts file=crux_time/src/protocol/duration.rs item="const NANOS_PER_SEC"
//@end
//@extract id=duration.consts2 file=crux_time/src/protocol/duration.rs item="const NANOS_PER_MILLI"
//@end
//@extract id=duration.struct file=crux_time/src/protocol/duration.rs item="struct Duration"
//@end
//@extract id=instant.struct file=crux_time/src/protocol/instant.rs item="struct Instant"
//@end
//@extract id=chrono.TimeError file=crux_time/src/protocol/chrono.rs item="enum TimeError"
//@end

// ------------------------------------------------------------------ 1. integer constructors
//@extract id=Duration::new file=crux_time/src/protocol/duration.rs within="impl Duration" item="fn new" props=C19
//@expect pub fn new(nanos: u64) -> Self
//@sig fn duration_new(nanos: u64) -> (r: Duration)
//@contract
    ensures
        r.nanos == nanos, // [C19/verus/Duration::new/exact]
//@rule X7.Self * s/\bSelf\b/Duration/
//@end

//@extract id=Duration::from_millis file=crux_time/src/protocol/duration.rs within="impl Duration" item="fn from_millis" props=C19
//@expect pub fn from_millis(millis: u64) -> Self
//@sig fn duration_from_millis(millis: u64) -> (r: Duration)
//@contract
    requires
        millis as int * 1_000_000 <= u64::MAX as int,
    ensures
        r.nanos as int == millis as int * 1_000_000, // [C19/verus/Duration::from_millis/exact]
//@rule X7.Self * s/\bSelf\b/Duration/
//@end

//@extract id=Duration::from_secs file=crux_time/src/protocol/duration.rs within="impl Duration" item="fn from_secs" props=C19
//@expect pub fn from_secs(seconds: u64) -> Self
//@sig fn duration_from_secs(seconds: u64) -> (r: Duration)
//@contract
    requires
        seconds as int * 1_000_000_000 <= u64::MAX as int,
    ensures
        r.nanos as int == seconds as int * 1_000_000_000, // [C19/verus/Duration::from_secs/exact]
//@rule X7.Self * s/\bSelf\b/Duration/
//@end

//@extract id=Instant::new file=crux_time/src/protocol/instant.rs within="impl Instant" item="fn new" props=C19
//@expect pub fn new(seconds: u64, nanos: u32) -> Self
//@sig fn instant_new(seconds: u64, nanos: u32) -> (r: Instant)
//@contract
    requires
        nanos < 1_000_000_000,
    ensures
        r.seconds == seconds && r.nanos == nanos, // [C19/verus/Instant::new/exact]
//@rule X7.Self * s/\bSelf\b/Instant/
//@end

// The rejection half (a panic outside the precondition) is Kani's: t_*_reject harnesses.

// ------------------------------------------------------------------ 2. chrono (assumed contracts)
// Abstract values of the chrono types. These six contracts are ASSUMPTIONS about chrono 0.4.40,
// written from its documentation and source; they are listed in the evidence and audited by the
// thorough tier's Kani harnesses where those finish.
#[verifier::external_body]
pub struct TimeDelta { _p: u8 }
#[verifier::external_body]
pub struct Utc { _p: u8 }
#[verifier::external_body]
#[verifier::reject_recursive_types(Tz)]
pub struct DateTime<Tz> { _p: core::marker::PhantomData<Tz> }

/// total length of the delta in nanoseconds (chrono: secs * 10^9 + nanos)
pub uninterp spec fn td_nanos(t: TimeDelta) -> int;
/// seconds since the epoch, floor (chrono: DateTime::timestamp)
pub uninterp spec fn dt_secs(t: DateTime<Utc>) -> int;
/// sub-second part; chrono lets it reach 1_999_999_999 to represent a leap second
pub uninterp spec fn dt_subsec(t: DateTime<Utc>) -> int;
/// whether chrono's calendar can hold this second count (about +-262000 years)
pub uninterp spec fn dt_in_range(secs: int) -> bool;

// vstd 0.2026.09.13 specifies TryFrom<u64> for every integer type except i64; this is std's
// documented behaviour for the missing instance (ASSUMED).
pub assume_specification[ <i64 as TryFrom<u64>>::try_from ](a: u64) -> (ret: Result<i64, <i64 as TryFrom<u64>>::Error>)
    ensures
        ret is Ok <==> a as int <= i64::MAX as int,
        ret is Ok ==> ret->Ok_0 as int == a as int;

impl TimeDelta {
    #[verifier::external_body]
    pub fn num_nanoseconds(&self) -> (r: Option<i64>)
        ensures
            r is Some <==> (i64::MIN as int <= td_nanos(*self) <= i64::MAX as int),
            r is Some ==> r->0 as int == td_nanos(*self),
    { unimplemented!() }

    #[verifier::external_body]
    pub fn nanoseconds(nanos: i64) -> (r: TimeDelta)
        ensures td_nanos(r) == nanos as int,
    { unimplemented!() }
}

impl DateTime<Utc> {
    #[verifier::external_body]
    pub fn from_timestamp(secs: i64, nsecs: u32) -> (r: Option<DateTime<Utc>>)
        ensures
            r is Some <==> (dt_in_range(secs as int) && (nsecs < 1_000_000_000 || (nsecs < 2_000_000_000 && secs as int % 60 == 59))),
            r is Some ==> dt_secs(r->0) == secs as int && dt_subsec(r->0) == nsecs as int,
    { unimplemented!() }

    #[verifier::external_body]
    pub fn timestamp(&self) -> (r: i64)
        ensures r as int == dt_secs(*self),
    { unimplemented!() }

    #[verifier::external_body]
    pub fn timestamp_subsec_nanos(&self) -> (r: u32)
        ensures r as int == dt_subsec(*self), r < 2_000_000_000,
    { unimplemented!() }
}

//@extract id=chrono.TimeDelta->Duration file=crux_time/src/protocol/chrono.rs within="impl TryFrom<TimeDelta> for crate::Duration" item="fn try_from" props=C19
//@expect fn try_from(value: TimeDelta) -> Result<Self, Self::Error>
//@sig fn duration_try_from_timedelta(value: TimeDelta) -> (r: Result<Duration, TimeError>)
//@contract
    ensures
        r is Ok ==> td_nanos(value) >= 0 && r->Ok_0.nanos as int == td_nanos(value), // [C19/chrono/TimeDelta->Duration/exact-or-rejected]
        r is Err ==> !(0 <= td_nanos(value) <= i64::MAX as int), // [C19/chrono/TimeDelta->Duration/no-spurious-rejection]
//@rule X7.Self * s/\bSelf\b/Duration/
//@rule X8.closure-wildcard * s/\|_\|/|_e|/
//@end

//@extract id=chrono.Duration->TimeDelta file=crux_time/src/protocol/chrono.rs within="impl TryFrom<crate::Duration> for TimeDelta" item="fn try_from" props=C19
//@expect fn try_from(value: crate::Duration) -> Result<Self, Self::Error>
//@sig fn timedelta_try_from_duration(value: Duration) -> (r: Result<TimeDelta, TimeError>)
//@contract
    ensures
        r is Ok ==> td_nanos(r->Ok_0) == value.nanos as int, // [C19/chrono/Duration->TimeDelta/exact-or-rejected]
        r is Err ==> value.nanos as int > i64::MAX as int, // [C19/chrono/Duration->TimeDelta/no-spurious-rejection]
//@rule X8.closure-wildcard * s/\|_\|/|_e|/
//@rule X10.try_into-is-try_from 1 s/value\s*\.nanos\s*\.try_into\(\)/i64::try_from(value.nanos)/
//@end

//@extract id=chrono.Instant->DateTime file=crux_time/src/protocol/chrono.rs within="impl TryFrom<crate::Instant> for DateTime<Utc>" item="fn try_from" props=C19
//@expect fn try_from(time: crate::Instant) -> Result<Self, Self::Error>
//@sig fn datetime_try_from_instant(time: Instant) -> (r: Result<DateTime<Utc>, TimeError>)
//@contract
    // no precondition: `Instant::new` enforces nanos < 10^9, the derived Deserialize does not, and
    // the property quantifies over every (seconds, nanos) pair
    ensures
        r is Ok ==> dt_secs(r->Ok_0) == time.seconds as int && dt_subsec(r->Ok_0) == time.nanos as int, // [C19/chrono/Instant->DateTime/exact-or-rejected]
        time.nanos >= 1_000_000_000 ==> r is Err, // [C19/chrono/Instant->DateTime/an-invalid-sub-second-part-is-rejected-explicitly]
        r is Err ==> time.seconds as int > i64::MAX as int || !dt_in_range(time.seconds as int) || time.nanos >= 1_000_000_000, // [C19/chrono/Instant->DateTime/no-spurious-rejection]
//@rule X8.closure-wildcard * s/\|_\|/|_e|/
//@end

//@extract id=chrono.DateTime->Instant file=crux_time/src/protocol/chrono.rs within="impl TryFrom<DateTime<Utc>> for crate::Instant" item="fn try_from" props=C19
//@expect fn try_from(time: DateTime<Utc>) -> Result<Self, Self::Error>
//@sig fn instant_try_from_datetime(time: DateTime<Utc>) -> (r: Result<Instant, TimeError>)
//@contract
    ensures
        r is Ok ==> dt_secs(time) >= 0 && r->Ok_0.seconds as int == dt_secs(time) && r->Ok_0.nanos as int == dt_subsec(time), // [C19/chrono/DateTime->Instant/exact-or-rejected]
        r is Ok ==> r->Ok_0.nanos < 1_000_000_000, // [C19/chrono/DateTime->Instant/result-is-a-valid-Instant]
        r is Err ==> dt_secs(time) < 0 || dt_subsec(time) >= 1_000_000_000, // [C19/chrono/DateTime->Instant/no-spurious-rejection]
//@rule X8.closure-wildcard * s/\|_\|/|_e|/
//@rule X7.crate-path * s/\bcrate::Instant\b/Instant/
//@end

// ------------------------------------------------------------------ 3. lemmas over the Kani contracts
// Kani proves, on the real crux + std bodies, for all inputs (crux_time/src/protocol/duration.rs):
//   K1  std::Duration::from(Duration{nanos: n}) = r  with  r.as_secs() == n / 10^9
//                                                    and   r.subsec_nanos() == n % 10^9
//   K2  Duration::from(std d) = r, given d.secs*10^9 + d.subsec <= u64::MAX (stated as a
//       comparison of the parts), with r.nanos == d.as_secs() * 10^9 + d.subsec_nanos()
// The statements below are what C19 needs from K1 and K2; CBMC cannot finish them (64-bit
// division identity), Z3 over mathematical integers does.
pub open spec fn k2_pre(s: u64, ns: u32) -> bool {
    s < 18_446_744_073 || (s == 18_446_744_073 && ns <= 709_551_615)
}

proof fn lemma_k2_pre_is_representability(s: u64, ns: u32)
    requires ns < 1_000_000_000,
    ensures
        k2_pre(s, ns) <==> s as int * 1_000_000_000 + ns as int <= u64::MAX as int, // [C19/lemma/K2-precondition-is-exactly-representability]
{
}

proof fn lemma_into_std_exact(n: u64)
    ensures
        (n % 1_000_000_000) < 1_000_000_000, // [C19/lemma/K1-subsec-valid]
        (n / 1_000_000_000) as int * 1_000_000_000 + (n % 1_000_000_000) as int == n as int, // [C19/lemma/K1-exact]
{
}

proof fn lemma_roundtrip_wire_std_wire(n: u64)
    ensures
        k2_pre(n / 1_000_000_000, (n % 1_000_000_000) as u32), // [C19/lemma/roundtrip-wire-std-wire/K2-applicable]
        ((n / 1_000_000_000) * 1_000_000_000 + (n % 1_000_000_000)) as u64 == n, // [C19/lemma/roundtrip-wire-std-wire/identity]
{
}

proof fn lemma_roundtrip_std_wire_std(s: u64, ns: u32)
    requires ns < 1_000_000_000, k2_pre(s, ns),
    ensures
        ((s * 1_000_000_000 + ns as u64) as u64) / 1_000_000_000 == s, // [C19/lemma/roundtrip-std-wire-std/secs]
        ((s * 1_000_000_000 + ns as u64) as u64) % 1_000_000_000 == ns as u64, // [C19/lemma/roundtrip-std-wire-std/subsec]
{
}

} // verus!

fn main() {}
