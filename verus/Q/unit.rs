// Unit Q (C01, C03, C13): local fixpoints of the event loop.
// Extracted verbatim on every run: QueuingExecutor::run_all, channel::Receiver::{receive, drain},
// Drain::next, Core::{process_event, resolve, process}, Command::{run_until_settled,
// spawn_new_tasks, is_done, was_aborted}, Stream::poll_next for Command, CommandContext::send_event.
//
// crux's channels are SHARED between objects (a task polled by executor.run_all() pushes into
// core.capability_events), so the abstract contents of the queues cannot be a function of the
// Rust value that holds the receiver. They live in one tracked ghost `World`; rule X6 prepends
// `Tracked(w)` to exactly the calls that can touch it (erased at run time). The callee contracts
// are the weakest sound ones: channel ends are FIFO and nothing else; everything that runs user
// code (run_task, poll, App::update, wakers) HAVOCS every queue, restricted only to APPEND to the
// event/effect queues (a sender cannot remove).
//
// Rewrites (counted): X1 contracts, X2 attributes, X3 auto-trait bounds, X4 lock erasure,
// X5 opaque types, X6 world threading, X8 closure wildcard, X9 debug_assert -> assert,
// X11 module-qualified names, X12 pin erasure, X13 iterator collect as a loop over Drain::next.
use vstd::prelude::*;

// X6 applied to every extracted function that takes the world (after its own rules):
//@@default-rule X6.world s/\.try_recv\(\)/.try_recv(Tracked(w))/
//@@default-rule X6.world s/\.receive\(\)/.receive(Tracked(w))/
//@@default-rule X6.world s/\.send\((?!Tracked)/.send(Tracked(w), /
//@@default-rule X6.world s/\b(ready_queue|spawn_queue|effects|events)\.is_empty\(\)/\1.is_empty(Tracked(w))/
//@@default-rule X6.world s/\.load\((?!Tracked)/.load(Tracked(w), /
//@@default-rule X6.world s/\.store\((?!Tracked)/.store(Tracked(w), /
//@@default-rule X6.world s/self\.run_task\((?!Tracked)/self.run_task(Tracked(w), /
//@@default-rule X6.world s/\.run_all\(\)/.run_all(Tracked(w))/
//@@default-rule X6.world s/self\.(was_aborted|spawn_new_tasks|run_until_settled|is_done|process)\(\)/self.\1(Tracked(w))/
//@@default-rule X6.world s/\.wake_join_handles\(\)/.wake_join_handles(Tracked(w))/
//@@default-rule X6.world s/\.is_aborted\(\)/.is_aborted(Tracked(w))/
//@@default-rule X6.world s/\.try_write\(\)/.try_write(Tracked(w))/
//@@default-rule X7.deref-TaskId s/\*task_id\b/task_id.0/

verus! {

// ================================================================== ghost world
pub tracked struct World {
    // ---- the core's queues
    pub ghost spawn: nat,            // QueuingExecutor.spawn_queue (futures waiting to become tasks)
    pub ghost ready: nat,            // QueuingExecutor.ready_queue (ids of woken tasks)
    pub ghost events: Seq<int>,      // Core.capability_events, by value identity
    pub ghost effects: Seq<int>,     // Core.requests, by value identity
    pub ghost applied: Seq<int>,     // log: events handed to App::update, in order
    pub ghost model_locked: bool,    // a write guard on the model exists
    // ---- one command's queues
    pub ghost c_spawn: nat,
    pub ghost c_ready: nat,
    pub ghost c_events: Seq<int>,
    pub ghost c_effects: Seq<int>,
    pub ghost c_aborted: bool,       // the command's abort flag
    pub ghost finished: Set<int>,    // identities of tasks run_task has reported Completed/Cancelled
    pub ghost known: Set<int>,       // identities of tasks that have entered the command (moved out of its spawn queue)
    pub ghost join_notified: Set<int>, // identities of tasks whose join handles have been woken (wake_join_handles)
    // ---- the waker handed to the task polled last by Command::run_task
    pub ghost p_refs: nat,           // strong count of its Arc<CommandWaker>
    pub ghost p_woken: bool,         // its `woken` flag
    pub ghost p_pending: bool,       // that poll returned Pending
    pub ghost host_woken: bool,      // the waker the command's host registered (AtomicWaker) has been woken
    pub ghost p_polls: nat,          // how many times Command::run_task has polled a task's future
    pub ghost aborted_tasks: Set<int>, // identities of tasks whose own abort flag (JoinHandle::abort) is set
    // ---- what the command hosted by the core's forwarding task (CommandSpawner) has yielded to it
    pub ghost y_events: Seq<int>,    // events yielded by `command.next()`, oldest first
    pub ghost y_effects: Seq<int>,   // effects yielded by `command.next()`, oldest first
    pub ghost y_ended: bool,         // `command.next()` has returned None
    // ---- join handles
    pub ghost jw_sent: nat,          // wakers registered with awaited tasks through JoinHandle::poll (count)
}

/// identity of a value travelling through a channel (uninterpreted: only equality matters)
pub uninterp spec fn val_id<T>(t: T) -> int;

pub enum Role { Spawn, Ready, Events, Effects, CSpawn, CReady, CEvents, CEffects, JoinWakers, Other }

pub open spec fn core_part_eq(a: World, b: World) -> bool {
    a.spawn == b.spawn && a.ready == b.ready && a.events == b.events && a.effects == b.effects
    && a.applied == b.applied && a.model_locked == b.model_locked
}
pub open spec fn cmd_part_eq(a: World, b: World) -> bool {
    a.c_spawn == b.c_spawn && a.c_ready == b.c_ready && a.c_events == b.c_events && a.c_effects == b.c_effects
    && a.c_aborted == b.c_aborted && a.finished == b.finished && a.known == b.known && a.join_notified == b.join_notified
    && a.p_refs == b.p_refs && a.p_woken == b.p_woken && a.p_pending == b.p_pending
    && a.p_polls == b.p_polls && a.aborted_tasks == b.aborted_tasks && a.host_woken == b.host_woken
}
/// what anything that runs user code may do to the core's queues: add work, append outputs
pub open spec fn core_havoc_min(a: World, b: World) -> bool {
    a.events.is_prefix_of(b.events) && a.effects.is_prefix_of(b.effects)
    && a.applied == b.applied && a.model_locked == b.model_locked
}
/// every event applied so far followed by every event still waiting, in order. If the queue is
/// FIFO and each dequeued event is applied exactly once before the next is dequeued, this
/// sequence only ever grows at its end.
pub open spec fn event_log(w: World) -> Seq<int> { w.applied + w.events }
/// core_havoc_min plus a consequence of it, restated to spare the solver (lemma_havoc_log shows
/// it adds nothing)
pub open spec fn core_havoc(a: World, b: World) -> bool {
    core_havoc_min(a, b) && event_log(a).is_prefix_of(event_log(b))
}
pub proof fn lemma_havoc_log(a: World, b: World)
    requires core_havoc_min(a, b),
    ensures core_havoc(a, b), // [C01+C03/lemma/havoc-log-clause-is-a-consequence-not-an-assumption]
{
    assert(event_log(a).is_prefix_of(event_log(b))) by {
        assert forall|i: int| 0 <= i < event_log(a).len() implies event_log(a)[i] == event_log(b)[i] by {
            if i < a.applied.len() { } else { assert(a.events[i - a.applied.len()] == b.events[i - a.applied.len()]); }
        }
    }
}
/// dequeuing the head and applying it keeps the log
pub proof fn lemma_pop_event_log(w1: World, id: int)
    requires w1.events.len() > 0, id == w1.events[0],
    ensures w1.applied.push(id) + w1.events.drop_first() == event_log(w1), // [C03/lemma/dequeue-then-apply-keeps-the-event-log]
{
    assert(w1.applied.push(id) + w1.events.drop_first() =~= w1.applied + w1.events);
}
/// applying e and then letting user code append events extends (applied.push(e) + events)
pub proof fn lemma_update_log(a: World, b: World, e: int)
    requires b.applied == a.applied.push(e), a.events.is_prefix_of(b.events),
    ensures (a.applied.push(e) + a.events).is_prefix_of(event_log(b)), // [C03/lemma/update-log-clause-is-a-consequence-not-an-assumption]
{
    assert forall|i: int| 0 <= i < (a.applied.push(e) + a.events).len() implies (a.applied.push(e) + a.events)[i] == event_log(b)[i] by {
        if i < a.applied.len() + 1 { } else { assert(a.events[i - a.applied.len() - 1] == b.events[i - a.applied.len() - 1]); }
    }
}
pub open spec fn cmd_havoc(a: World, b: World) -> bool {
    a.c_events.is_prefix_of(b.c_events) && a.c_effects.is_prefix_of(b.c_effects)
    && (a.c_aborted ==> b.c_aborted) && a.finished.subset_of(b.finished)
}

pub open spec fn queue_len(w: World, r: Role) -> nat {
    match r {
        Role::Spawn => w.spawn, Role::Ready => w.ready, Role::Events => w.events.len(), Role::Effects => w.effects.len(),
        Role::CSpawn => w.c_spawn, Role::CReady => w.c_ready, Role::CEvents => w.c_events.len(), Role::CEffects => w.c_effects.len(),
        Role::JoinWakers => 0, // only counted (jw_sent), never read as a queue here
        Role::Other => 0,
    }
}
/// w2 is w1 with the head of queue r removed (id = head identity for the value-carrying queues)
pub open spec fn popped(w1: World, w2: World, r: Role, id: int) -> bool {
    match r {
        Role::Spawn => w2 == World { spawn: (w1.spawn - 1) as nat, ..w1 },
        Role::Ready => w2 == World { ready: (w1.ready - 1) as nat, ..w1 },
        // (the last clause is a consequence, lemma_pop_event_log)
        Role::Events => id == w1.events[0] && w2 == World { events: w1.events.drop_first(), ..w1 } && w1.applied.push(id) + w2.events == event_log(w1),
        Role::Effects => id == w1.effects[0] && w2 == World { effects: w1.effects.drop_first(), ..w1 },
        // a Task is moved, never cloned: the one taken from the spawn queue is a task the command has
        // not seen before, and it has never run
        Role::CSpawn => w2 == World { c_spawn: (w1.c_spawn - 1) as nat, known: w1.known.insert(id), ..w1 } && !w1.known.contains(id) && !w1.finished.contains(id),
        Role::CReady => w2 == World { c_ready: (w1.c_ready - 1) as nat, ..w1 },
        Role::CEvents => id == w1.c_events[0] && w2 == World { c_events: w1.c_events.drop_first(), ..w1 },
        Role::CEffects => id == w1.c_effects[0] && w2 == World { c_effects: w1.c_effects.drop_first(), ..w1 },
        Role::JoinWakers => true,
        Role::Other => true,
    }
}
pub open spec fn pushed(w1: World, w2: World, r: Role, id: int) -> bool {
    match r {
        Role::Spawn => w2 == World { spawn: w1.spawn + 1, ..w1 },
        Role::Ready => w2 == World { ready: w1.ready + 1, ..w1 },
        Role::Events => w2 == World { events: w1.events.push(id), ..w1 },
        Role::Effects => w2 == World { effects: w1.effects.push(id), ..w1 },
        Role::CSpawn => w2 == World { c_spawn: w1.c_spawn + 1, ..w1 },
        Role::CReady => w2 == World { c_ready: w1.c_ready + 1, ..w1 },
        Role::CEvents => w2 == World { c_events: w1.c_events.push(id), ..w1 },
        Role::CEffects => w2 == World { c_effects: w1.c_effects.push(id), ..w1 },
        Role::JoinWakers => w2 == World { jw_sent: w1.jw_sent + 1, ..w1 },
        Role::Other => true,
    }
}

// ================================================================== assumed: crossbeam-channel 0.5 (unbounded, used sequentially)
// FIFO and nothing else. try_recv: Ok(head) iff non-empty, removing it; Err otherwise, changing
// nothing. send: appends; Ok while a receiver exists (every send below is on a channel whose
// receiver the same object owns). Disconnection is not modelled: the owner of each receiver
// below also (transitively) owns a sender.
pub mod crossbeam_channel {
    use super::*;
    #[verifier::external_body]
    #[verifier::accept_recursive_types(T)]
    pub struct Receiver<T> { _p: core::marker::PhantomData<T> }
    #[verifier::external_body]
    #[verifier::accept_recursive_types(T)]
    pub struct Sender<T> { _p: core::marker::PhantomData<T> }
    pub enum TryRecvError { Empty, Disconnected }
    #[verifier::external_body]
    #[verifier::accept_recursive_types(T)]
    pub struct SendError<T> { _p: core::marker::PhantomData<T> }
    impl<T> core::fmt::Debug for SendError<T> {
        #[verifier::external_body]
        fn fmt(&self, f: &mut core::fmt::Formatter<'_>) -> core::fmt::Result { unimplemented!() }
    }

    impl<T> Receiver<T> {
        pub uninterp spec fn role(&self) -> Role;

        #[verifier::external_body]
        pub fn try_recv(&self, Tracked(w): Tracked<&mut World>) -> (r: Result<T, TryRecvError>)
            ensures
                r is Ok <==> queue_len(*old(w), self.role()) > 0,
                r is Ok ==> popped(*old(w), *final(w), self.role(), val_id(r->Ok_0)),
                r is Err ==> *final(w) == *old(w) && r->Err_0 is Empty,
        { unimplemented!() }

        #[verifier::external_body]
        pub fn is_empty(&self, Tracked(w): Tracked<&mut World>) -> (r: bool)
            ensures r <==> queue_len(*old(w), self.role()) == 0, *final(w) == *old(w),
        { unimplemented!() }
    }

    // `crossbeam_channel::unbounded()` with the role the proof gives the new channel (rule
    // X6.channel-role, a ghost argument): both ends belong to the same, empty, channel
    #[verifier::external_body]
    pub fn unbounded<T>(Ghost(role): Ghost<Role>) -> (r: (Sender<T>, Receiver<T>))
        ensures r.0.role() == role, r.1.role() == role,
    { unimplemented!() }

    impl<T> Sender<T> {
        pub uninterp spec fn role(&self) -> Role;

        #[verifier::external_body]
        pub fn send(&self, Tracked(w): Tracked<&mut World>, t: T) -> (r: Result<(), SendError<T>>)
            ensures
                r is Ok,
                pushed(*old(w), *final(w), self.role(), val_id(t)),
        { unimplemented!() }
    }
}
use crossbeam_channel::{Receiver, Sender};

// ================================================================== X4/X5: locks, slab, opaque std/futures types
/// assumed: slab 0.4.9 as a partial map (same contracts as unit R). insert picks a vacant key;
/// remove frees exactly that key and panics on a vacant one; get_mut lends exactly the addressed
/// entry. ASSUMED in addition: fewer than 2^32 entries are alive, so keys fit u32 (the executor
/// panics explicitly otherwise: "TaskId overflow").
#[verifier::external_body]
#[verifier::accept_recursive_types(T)]
pub struct Slab<T> { _p: core::marker::PhantomData<T> }
impl<T> View for Slab<T> {
    type V = Map<usize, T>;
    uninterp spec fn view(&self) -> Map<usize, T>;
}
impl<T> Slab<T> {
    #[verifier::external_body]
    pub fn insert(&mut self, val: T) -> (key: usize)
        ensures
            !old(self)@.dom().contains(key),
            final(self)@ == old(self)@.insert(key, val),
            key <= u32::MAX,
    { unimplemented!() }
    #[verifier::external_body]
    pub fn remove(&mut self, key: usize) -> (val: T)
        requires old(self)@.dom().contains(key), // slab panics with "invalid key" otherwise
        ensures
            final(self)@ == old(self)@.remove(key),
            val == old(self)@[key],
    { unimplemented!() }
    #[verifier::external_body]
    pub fn get_mut(&mut self, key: usize) -> (r: Option<&mut T>)
        ensures
            r is Some <==> old(self)@.dom().contains(key),
            r is Some ==> *(r->0) == old(self)@[key] && final(self)@ == old(self)@.insert(key, *final(r->0)),
            r is None ==> final(self)@ == old(self)@,
    { unimplemented!() }
    #[verifier::external_body]
    pub fn new() -> (r: Slab<T>)
        ensures r@ == Map::<usize, T>::empty(),
    { unimplemented!() }
    #[verifier::external_body]
    pub fn with_capacity(capacity: usize) -> (r: Slab<T>)
        ensures r@ == Map::<usize, T>::empty(),
    { unimplemented!() }
    #[verifier::external_body]
    pub fn clear(&mut self)
        ensures final(self)@ == Map::<usize, T>::empty(),
    { unimplemented!() }
    #[verifier::external_body]
    pub fn is_empty(&self) -> (r: bool)
        ensures r <==> self@.dom() =~= Set::<usize>::empty(),
    { unimplemented!() }

    #[verifier::external_body]
    pub fn len(&self) -> (r: usize)
        ensures self@.dom().finite(), r == self@.dom().len(),
    { unimplemented!() }


    #[verifier::external_body]
    pub fn contains(&self, key: usize) -> (r: bool)
        ensures r == self@.dom().contains(key),
    { unimplemented!() }

    #[verifier::external_body]
    pub fn get(&self, key: usize) -> (r: Option<&T>)
        ensures
            r is Some <==> self@.dom().contains(key),
            r is Some ==> *(r->0) == self@[key],
    { unimplemented!() }


    // weakest sound reading: retain only removes entries (it hands each value to the closure
    // mutably, so nothing is promised about the values that stay)
    #[verifier::external_body]
    pub fn retain<F: FnMut(usize, &mut T) -> bool>(&mut self, f: F)
        ensures forall|k: usize| #![auto] final(self)@.dom().contains(k) ==> old(self)@.dom().contains(k),
    { unimplemented!() }
}

/// X4: std::sync::Mutex seen sequentially is the protected value; `lock().expect(..)` /
/// `lock().unwrap()` are rewritten to `(&mut self.tasks.inner)` and `&self` to `&mut self`.
pub struct Mutex<T> { pub inner: T }
impl<T> Mutex<T> {
    pub fn new(t: T) -> (r: Mutex<T>)
        ensures r.inner == t,
    { Mutex { inner: t } }
}

#[verifier::external_body]
#[verifier::accept_recursive_types(T)]
pub struct PoisonError<T> { _p: core::marker::PhantomData<T> }
impl<T> core::fmt::Debug for PoisonError<T> {
    #[verifier::external_body]
    fn fmt(&self, f: &mut core::fmt::Formatter<'_>) -> core::fmt::Result { unimplemented!() }
}

/// std::mem::drop (of a lock guard that rule X4 turned into a `&mut`, or of a Task)
#[verifier::external_body]
pub fn drop<T>(t: T)
{ unimplemented!() }

// vstd has no specification for Option::replace; std's documented behaviour (ASSUMED)
pub assume_specification<T> [core::option::Option::<T>::replace] (o: &mut Option<T>, v: T) -> (r: Option<T>)
    ensures r == *old(o), *final(o) == Some(v);

/// futures::future::BoxFuture<'static, ()> = Pin<Box<dyn Future<Output = ()> + Send>>
#[verifier::external_body]
pub struct BoxFuture { _p: u8 }
/// Pin<&mut (dyn Future<Output = ()> + Send)>
#[verifier::external_body]
pub struct PinMutFuture<'a> { _p: core::marker::PhantomData<&'a mut BoxFuture> }
#[verifier::external_body]
pub struct Waker { _p: u8 }
#[verifier::external_body]
pub struct Context<'a> { _p: core::marker::PhantomData<&'a Waker> }
#[verifier::external_body]
#[verifier::accept_recursive_types(T)]
pub struct Arc<T> { _p: core::marker::PhantomData<T> }
/// std::task::Poll
pub enum Poll<T> { Ready(T), Pending }
impl<T> Poll<T> {
    pub fn is_pending(&self) -> (r: bool)
        ensures r == (*self is Pending),
    {
        match self { Poll::Pending => true, Poll::Ready(_) => false }
    }
}
impl<T> Arc<T> {
    #[verifier::external_body]
    pub fn new(t: T) -> (r: Arc<T>)
    { unimplemented!() }
}
impl<'a> Context<'a> {
    #[verifier::external_body]
    pub fn from_waker(waker: &'a Waker) -> (r: Context<'a>)
    { unimplemented!() }
    #[verifier::external_body]
    pub fn waker(&self) -> (r: &Waker)
    { unimplemented!() }
}
impl BoxFuture {
    #[verifier::external_body]
    pub fn as_mut(&mut self) -> (r: PinMutFuture<'_>)
    { unimplemented!() }
}
impl<'a> PinMutFuture<'a> {
    // ASSUMED (havoc): polling a task's future runs user code. It may spawn, wake, emit - never
    // remove an emitted event or effect, never touch the model lock, never reach into the
    // executor's slab (which the polling thread owns exclusively while sequential).
    #[verifier::external_body]
    pub fn poll(self, Tracked(w): Tracked<&mut World>, cx: &mut Context<'_>) -> (r: Poll<()>)
        requires
            !old(w).model_locked, // tasks never run while the model is write-locked (C03)
        ensures
            core_havoc(*old(w), *final(w)),
    { unimplemented!() }
}
impl<T> Clone for Sender<T> {
    #[verifier::external_body]
    fn clone(&self) -> (r: Self)
        ensures r.role() == self.role(),
    { unimplemented!() }
}

// ================================================================== capability/executor.rs
//@extract id=exec.TaskId file=crux_core/src/capability/executor.rs item="struct TaskId"
//@contract
#[derive(Clone, Copy)]
//@end
//@extract id=exec.RunTask file=crux_core/src/capability/executor.rs item="enum RunTask"
//@end
//@extract id=exec.TaskWaker file=crux_core/src/capability/executor.rs item="struct TaskWaker"
//@rule X2.vis 1 s/^struct TaskWaker/pub struct TaskWaker/
//@rule X2.vis * s/\n(\s+)(task_id|sender):/\n\1pub \2:/
//@end
//@extract id=exec.QueuingExecutor file=crux_core/src/capability/executor.rs item="struct QueuingExecutor"
//@rule X2.vis 1 s/pub\(crate\) struct/pub struct/
//@end

// `Arc::new(TaskWaker{..}).into()`: std's `impl<W: Wake> From<Arc<W>> for Waker` (opaque)
impl From<Arc<TaskWaker>> for Waker {
    #[verifier::external_body]
    fn from(a: Arc<TaskWaker>) -> (r: Waker)
    { unimplemented!() }
}

// X7: `impl Wake for TaskWaker { fn wake_by_ref(self: &Arc<Self>) }` lifted to an inherent
// method on the pointee (Arc deref)
impl TaskWaker {
//@extract id=TaskWaker::wake file=crux_core/src/capability/executor.rs within="impl Wake for TaskWaker" item="fn wake" props=C01+C05
//@expect fn wake(self: Arc<Self>)
//@sig pub fn wake(&self, Tracked(w): Tracked<&mut World>)
//@contract
        requires
            self.sender.role() is Ready,
        ensures
            *final(w) == (World { ready: old(w).ready + 1, ..*old(w) }), // [C01+C05/TaskWaker::wake/waking-by-value-does-what-waking-by-reference-does]
//@rule X6.world * s/(?:self\.wake_by_ref\(\)|Self::wake_by_ref\(&self\))/self.wake_by_ref(Tracked(w))/
//@end

//@extract id=TaskWaker::wake_by_ref file=crux_core/src/capability/executor.rs within="impl Wake for TaskWaker" item="fn wake_by_ref" props=C01+C05
//@expect fn wake_by_ref(self: &Arc<Self>)
//@sig pub fn wake_by_ref(&self, Tracked(w): Tracked<&mut World>)
//@contract
        requires
            self.sender.role() is Ready, // the waker was made by QueuingExecutor::run_task from its own ready_sender
        ensures
            *final(w) == (World { ready: old(w).ready + 1, ..*old(w) }), // [C01+C05/TaskWaker::wake_by_ref/the-woken-task-is-queued-on-the-executors-ready-queue-exactly-once]
//@end
}

impl QueuingExecutor {
    /// the three channel ends are the executor's own queues (established by executor_and_spawner)
    pub closed spec fn wf(&self) -> bool {
        self.spawn_queue.role() is Spawn && self.ready_queue.role() is Ready && self.ready_sender.role() is Ready
    }
    /// no slot is empty: a slot is emptied only while its task is being polled, so between calls
    /// this is exactly "no other thread is polling a task" (the sequential reading; C08 is not claimed)
    pub closed spec fn idle(&self) -> bool {
        forall|k: usize| #[trigger] self.tasks.inner@.dom().contains(k) ==> self.tasks.inner@[k] is Some
    }
    pub closed spec fn slots(&self) -> Map<usize, Option<BoxFuture>> { self.tasks.inner@ }

//@extract id=QueuingExecutor::run_task file=crux_core/src/capability/executor.rs within="impl QueuingExecutor" item="fn run_task" props=C01+C13
//@expect fn run_task(&self, task_id: TaskId) -> RunTask
//@sig fn run_task(&mut self, Tracked(w): Tracked<&mut World>, task_id: TaskId) -> (r: RunTask)
//@contract
        requires
            old(self).wf(),
            !old(w).model_locked,
        ensures
            final(self).wf(),
            r is Missing <==> !old(self).slots().dom().contains(task_id.0 as usize), // [C01/executor-run_task/missing-iff-the-slot-is-vacant]
            r is Unavailable <==> old(self).slots().dom().contains(task_id.0 as usize) && old(self).slots()[task_id.0 as usize] is None, // [C01/executor-run_task/unavailable-iff-the-slot-is-being-polled]
            (r is Missing || r is Unavailable) ==> *final(w) == *old(w) && final(self).slots() == old(self).slots(), // [C01/executor-run_task/nothing-happens-when-there-is-nothing-to-run]
            r is Completed ==> final(self).slots() =~= old(self).slots().remove(task_id.0 as usize), // [C13/executor-run_task/a-completed-task-frees-its-slot-and-no-other]
            r is Suspended ==> final(self).slots().dom() =~= old(self).slots().dom() && final(self).slots()[task_id.0 as usize] is Some, // [C01+C13/executor-run_task/a-pending-task-is-put-back-in-its-own-slot]
            forall|k: usize| #![auto] k != task_id.0 as usize && old(self).slots().dom().contains(k) ==> final(self).slots().dom().contains(k) && final(self).slots()[k] == old(self).slots()[k], // [C01+C13/executor-run_task/no-other-task-touched]
            core_havoc(*old(w), *final(w)), // [C01+C03/executor-run_task/emitted-events-and-effects-only-appended]
//@rule X4.lock-erasure * s/self\s*\.tasks\s*\.lock\(\)\s*\.(?:expect\("[^"]*"\)|unwrap\(\))/(&mut self.tasks.inner)/
//@rule X4.guard-drop * s#\bdrop\((\w+)\);#{ } /* drop(\1): after X4 the guard is a plain exclusive borrow whose scope ends here */#
//@rule X7.deref-TaskId * s/\*task_id\b/task_id.0/
//@rule X6.world * s/\.poll\(/.poll(Tracked(w), /
//@end

//@extract id=QueuingExecutor::run_all file=crux_core/src/capability/executor.rs within="impl QueuingExecutor" item="fn run_all" props=C01+C03
//@expect pub fn run_all(&self)
//@sig pub fn run_all(&mut self, Tracked(w): Tracked<&mut World>)
//@attr #[verifier::exec_allows_no_decreases_clause]
//@contract
        requires
            old(self).wf(),
            old(self).idle(),
            !old(w).model_locked, // [C03/run_all/callers-must-have-released-the-model]
        ensures
            final(self).wf(),
            final(self).idle(),
            final(w).spawn == 0 && final(w).ready == 0, // [C01/run_all/no-runnable-work-left-behind]
            core_havoc(*old(w), *final(w)), // [C01+C03/run_all/emitted-events-and-effects-only-appended]
//@rule X4.lock-erasure * s/self\s*\.tasks\s*\.lock\(\)\s*\.(?:expect\("[^"]*"\)|unwrap\(\))/(&mut self.tasks.inner)/
//@rule X6.world * s/\.try_recv\(\)/.try_recv(Tracked(w))/
//@rule X6.world * s/self\.run_task\(/self.run_task(Tracked(w), /
//@rule X6.world * s/\.send\(/.send(Tracked(w), /
//@loops 3
//@loop 1
            invariant
                self.wf(), self.idle(), !w.model_locked,
                !did_some_work ==> w.spawn == 0 && w.ready == 0, // [C01/run_all/outer-loop-exits-only-when-both-queues-are-empty]
                core_havoc(*old(w), *w),
//@loop 2
                invariant
                    self.wf(), self.idle(), !w.model_locked,
                    core_havoc(*old(w), *w),
                ensures
                    w.spawn == 0, // [C01/run_all/spawn-queue-drained]
//@loop 3
                invariant
                    self.wf(), self.idle(), !w.model_locked,
                    !did_some_work ==> w.spawn == 0, // [C01/run_all/work-done-by-a-ready-task-forces-another-pass]
                    core_havoc(*old(w), *w),
                ensures
                    w.ready == 0, // [C01/run_all/ready-queue-drained]
//@end
}

//@extract id=exec.Spawner file=crux_core/src/capability/executor.rs item="struct Spawner"
//@rule X2.vis 1 s/\n(\s+)future_sender:/\n\1pub future_sender:/
//@end

/// `future.boxed()` (futures::FutureExt): the same future, boxed and pinned
#[verifier::external_body]
pub fn boxed<F>(future: F) -> BoxFuture { unimplemented!() }

impl Clone for Spawner {
    // ASSUMED: derive(Clone) (dropped with the attributes, X2) clones the crossbeam sender: the same channel
    #[verifier::external_body]
    fn clone(&self) -> (r: Self)
        ensures r == *self,
    { unimplemented!() }
}

impl Spawner {
//@extract id=Spawner::spawn file=crux_core/src/capability/executor.rs within="impl Spawner" item="fn spawn" props=C01
//@expect pub fn spawn(&self, future: impl Future<Output = ()> + 'static + Send)
//@sig pub fn spawn<F>(&self, Tracked(w): Tracked<&mut World>, future: F)
//@contract
        requires
            self.future_sender.role() is Spawn,
        ensures
            *final(w) == (World { spawn: old(w).spawn + 1, ..*old(w) }), // [C01/Spawner::spawn/the-future-is-queued-exactly-once-on-the-executors-spawn-queue]
//@rule X5.boxed 1 s/future\.boxed\(\)/boxed(future)/
//@end
}

//@extract id=executor_and_spawner file=crux_core/src/capability/executor.rs item="fn executor_and_spawner" props=C01
//@expect pub(crate) fn executor_and_spawner() -> (QueuingExecutor, Spawner)
//@sig pub fn executor_and_spawner() -> (r: (QueuingExecutor, Spawner))
//@contract
    ensures
        r.0.wf(), // [C01/executor_and_spawner/the-executors-queue-ends-are-wired-to-its-own-two-channels]
        r.0.idle(), // [C01/executor_and_spawner/starts-with-no-task]
        r.1.future_sender.role() is Spawn, // [C01/executor_and_spawner/the-spawner-feeds-the-executors-spawn-queue]
//@rule X6.channel-role 1 s/let \(future_sender, spawn_queue\) = crossbeam_channel::unbounded\(\);/let (future_sender, spawn_queue) = crossbeam_channel::unbounded(Ghost(Role::Spawn));/
//@rule X6.channel-role 1 s/let \(ready_sender, ready_queue\) = crossbeam_channel::unbounded\(\);/let (ready_sender, ready_queue) = crossbeam_channel::unbounded(Ghost(Role::Ready));/
//@end

// ================================================================== capability/channel.rs
pub mod channel {
    use super::*;
    use std::sync::Arc;
//@extract id=channel.Receiver file=crux_core/src/capability/channel.rs item="struct Receiver"
//@rule X2.vis 1 s/\binner:/pub inner:/
//@end

    impl<T> Receiver<T> {
//@extract id=channel::Receiver::receive file=crux_core/src/capability/channel.rs within="impl<T> Receiver<T>" item="fn receive" props=C01+C03
//@expect pub fn receive(&self) -> Option<T>
//@sig pub fn receive(&self, Tracked(w): Tracked<&mut World>) -> (r: Option<T>)
//@contract
            ensures
                r is Some <==> queue_len(*old(w), self.inner.role()) > 0, // [C01+C03/receive/some-iff-queue-non-empty]
                r is Some ==> popped(*old(w), *final(w), self.inner.role(), val_id(r->0)), // [C03/receive/takes-exactly-the-head-FIFO]
                r is None ==> *final(w) == *old(w), // [C01+C03/receive/empty-changes-nothing]
//@rule X6.world * s/\.try_recv\(\)/.try_recv(Tracked(w))/
//@end

//@extract id=channel::Receiver::try_receive file=crux_core/src/capability/channel.rs within="impl<T> Receiver<T>" item="fn try_receive" props=C02+C03
//@expect pub fn try_receive(&self) -> Result<Option<T>, ()>
//@sig pub fn try_receive(&self, Tracked(w): Tracked<&mut World>) -> (r: Result<Option<T>, ()>)
//@contract
            ensures
                r matches Ok(Some(v)) <==> queue_len(*old(w), self.inner.role()) > 0, // [C02+C03/try_receive/a-value-iff-queue-non-empty]
                r matches Ok(Some(v)) ==> popped(*old(w), *final(w), self.inner.role(), val_id(v)), // [C02+C03/try_receive/takes-exactly-the-head-FIFO]
                !(r matches Ok(Some(_))) ==> *final(w) == *old(w), // [C02+C03/try_receive/empty-or-disconnected-changes-nothing]
//@end

//@extract id=channel::Receiver::drain file=crux_core/src/capability/channel.rs within="impl<T> Receiver<T>" item="fn drain" props=C01
//@expect pub fn drain(&self) -> Drain<T>
//@sig pub fn drain(&self) -> (r: Drain<T>)
//@contract
            ensures
                r.receiver == self, // [C01/drain/iterates-this-receiver]
//@end
    }

//@extract id=channel.Drain file=crux_core/src/capability/channel.rs item="struct Drain"
//@rule X2.vis 1 s/\breceiver:/pub receiver:/
//@end

    // X7: `impl<T> Iterator for Drain<'_, T> { fn next }` lifted to an inherent method (same body)
    impl<'a, T> Drain<'a, T> {
//@extract id=channel::Drain::next file=crux_core/src/capability/channel.rs within="impl<T> Iterator for Drain<'_, T>" item="fn next" props=C01
//@expect fn next(&mut self) -> Option<Self::Item>
//@sig pub fn next(&mut self, Tracked(w): Tracked<&mut World>) -> (r: Option<T>)
//@contract
            ensures
                final(self).receiver == old(self).receiver,
                r is Some <==> queue_len(*old(w), old(self).receiver.inner.role()) > 0, // [C01/Drain::next/some-iff-queue-non-empty]
                r is Some ==> popped(*old(w), *final(w), old(self).receiver.inner.role(), val_id(r->0)), // [C01/Drain::next/takes-exactly-the-head]
                r is None ==> *final(w) == *old(w), // [C01/Drain::next/empty-changes-nothing]
//@rule X6.world * s/\.receive\(\)/.receive(Tracked(w))/
//@end
    }

    // ---- the sending side: Sender<T> = Arc<dyn SenderInner<T>>, either the crossbeam sender
    // itself or a MappedInner that maps the value once and forwards it (std Arc here: vstd
    // specifies Arc::new / Arc::clone and handles the unsizing coercion to `dyn`)
//@extract id=channel.SenderInner file=crux_core/src/capability/channel.rs item="trait SenderInner"
//@rule X2.vis 1 s/^trait SenderInner/pub trait SenderInner/
//@rule X1.trait-contract 1 s~fn send\(&self, t: T\);~/// values this sender can take (a mapped sender: those its function accepts)\n        spec fn accepts(&self, t: T) -> bool;\n        /// what sending t does to the queues\n        spec fn effect(&self, t: T, w1: World, w2: World) -> bool;\n        fn send(&self, Tracked(w): Tracked<&mut World>, t: T)\n            requires self.accepts(t),\n            ensures self.effect(t, *old(w), *final(w));~
//@end

    impl<T> SenderInner<T> for crossbeam_channel::Sender<T> {
        open spec fn accepts(&self, t: T) -> bool { true }
        /// exactly this value is appended, once, to the queue this channel end belongs to
        open spec fn effect(&self, t: T, w1: World, w2: World) -> bool { pushed(w1, w2, self.role(), val_id(t)) }
//@extract id=SenderInner_for_crossbeam::send file=crux_core/src/capability/channel.rs within="impl<T> SenderInner<T> for crossbeam_channel::Sender<T>" item="fn send" props=C01+C03
//@expect fn send(&self, t: T)
//@sig fn send(&self, Tracked(w): Tracked<&mut World>, t: T)
//@rule X6.world 1 s/crossbeam_channel::Sender::send\(self, t\)/crossbeam_channel::Sender::send(self, Tracked(w), t)/
//@end
    }

//@extract id=channel.MappedInner file=crux_core/src/capability/channel.rs item="struct MappedInner"
//@contract
    #[verifier::reject_recursive_types(T)]
//@rule X3.auto-traits 1 s/ \+ Send \+ Sync>/>/
//@rule X2.vis * s/\n(\s+)(sender|func):/\n\1pub \2:/
//@end

    impl<F, T, U> SenderInner<U> for MappedInner<T, F>
    where
        F: Fn(U) -> T,
    {
        open spec fn accepts(&self, u: U) -> bool {
            call_requires(self.func, (u,)) && forall|t: T| #![auto] call_ensures(self.func, (u,), t) ==> self.sender.accepts(t)
        }
        /// the value is passed through the mapping function once and what it returns is sent on, once
        open spec fn effect(&self, u: U, w1: World, w2: World) -> bool {
            exists|t: T| #[trigger] call_ensures(self.func, (u,), t) && self.sender.effect(t, w1, w2)
        }
//@extract id=MappedInner::send file=crux_core/src/capability/channel.rs within="impl<F, T, U> SenderInner<U> for MappedInner<T, F>" item="fn send" props=C01+C03
//@expect fn send(&self, value: U)
//@sig fn send(&self, Tracked(w): Tracked<&mut World>, value: U)
//@end
    }

//@extract id=channel.Sender file=crux_core/src/capability/channel.rs item="struct Sender"
//@contract
    #[verifier::reject_recursive_types(T)]
//@rule X3.auto-traits 1 s/ \+ Send \+ Sync>/>/
//@rule X2.vis 1 s/\binner:/pub inner:/
//@end

//@extract id=channel::channel file=crux_core/src/capability/channel.rs item="fn channel" props=C01
//@expect pub(crate) fn channel<T>() -> (Sender<T>, Receiver<T>) where T: Send + 'static,
//@sig pub fn channel<T>(Ghost(role): Ghost<Role>) -> (r: (Sender<T>, Receiver<T>)) where T: 'static,
//@contract
        ensures
            r.1.inner.role() == role, // [C01/channel/the-receiver-is-the-new-channels-own]
            forall|t: T| #![auto] r.0.inner.accepts(t), // [C01/channel/the-sender-takes-every-value]
            forall|t: T, w1: World, w2: World| #![auto] r.0.inner.effect(t, w1, w2) == pushed(w1, w2, role, val_id(t)), // [C01+C03/channel/sending-appends-to-the-same-channel-the-receiver-reads]
//@rule X6.channel-role 1 s/crossbeam_channel::unbounded\(\)/crossbeam_channel::unbounded(Ghost(role))/
//@end

    impl<T> Clone for Sender<T> {
//@extract id=channel::Sender::clone file=crux_core/src/capability/channel.rs within="impl<T> Clone for Sender<T>" item="fn clone" props=C01
//@expect fn clone(&self) -> Self
//@sig fn clone(&self) -> (r: Self)
//@contract
            ensures
                r.inner == self.inner, // [C01/channel::Sender::clone/a-clone-sends-into-the-same-channel]
//@end
    }

    impl<T> Sender<T> {
//@extract id=channel::Sender::send file=crux_core/src/capability/channel.rs within="impl<T> Sender<T>" item="fn send" props=C01+C03
//@expect pub fn send(&self, t: T)
//@sig pub fn send(&self, Tracked(w): Tracked<&mut World>, t: T)
//@contract
            requires
                self.inner.accepts(t),
            ensures
                self.inner.effect(t, *old(w), *final(w)), // [C01+C03/channel::Sender::send/does-exactly-what-its-inner-sender-does-once]
//@end

//@extract id=channel::Sender::map_input file=crux_core/src/capability/channel.rs within="impl<T> Sender<T>" item="fn map_input" props=C01
//@expect pub fn map_input<NewT, F>(&self, func: F) -> Sender<NewT> where F: Fn(NewT) -> T + Send + Sync + 'static,
//@sig pub fn map_input<NewT, F>(&self, func: F) -> (r: Sender<NewT>) where F: Fn(NewT) -> T + 'static, T: 'static, NewT: 'static,
//@end
    }

    pub open spec fn ids<T>(s: Seq<T>) -> Seq<int> {
        s.map_values(|t: T| val_id(t))
    }

    // X13: `.drain().collect()` is std's Iterator::collect::<Vec<_>> over Drain: exhaust next()
    // into a Vec, in order. Written out as that loop (ASSUMED to be what collect does) and
    // verified against the extracted Drain::next above.
    #[verifier::exec_allows_no_decreases_clause]
    pub fn collect_drain<T>(Tracked(w): Tracked<&mut World>, d: Drain<'_, T>) -> (v: Vec<T>)
        requires
            d.receiver.inner.role() is Effects,
        ensures
            ids(v@) == old(w).effects, // [C01/collect/every-queued-effect-returned-once-in-order]
            *final(w) == (World { effects: Seq::empty(), ..*old(w) }), // [C01/collect/queue-left-empty-nothing-else-touched]
    {
        let mut d = d;
        let mut v: Vec<T> = Vec::new();
        loop
            invariant
                d.receiver.inner.role() is Effects,
                ids(v@) + w.effects == old(w).effects,
                *w == (World { effects: w.effects, ..*old(w) }),
            ensures
                w.effects.len() == 0,
                ids(v@) + w.effects == old(w).effects,
                *w == (World { effects: w.effects, ..*old(w) }),
        {
            let ghost pre = *w;
            match d.next(Tracked(w)) {
                Some(x) => {
                    proof {
                        assert(ids(v@.push(x)) =~= ids(v@).push(val_id(x)));
                        assert(ids(v@).push(pre.effects[0]) + pre.effects.drop_first() =~= ids(v@) + pre.effects);
                    }
                    v.push(x);
                }
                None => {
                    break;
                }
            }
        }
        proof {
            assert(w.effects =~= Seq::<int>::empty());
            assert(ids(v@) + Seq::<int>::empty() =~= ids(v@));
        }
        v
    }
}

// ================================================================== core/mod.rs
pub mod core_m {
    use super::*;
    use super::channel::{collect_drain, Receiver, Sender, SenderInner};

    // ---- X4: the model lock. write() while a guard exists would deadlock or panic: precondition.
    #[verifier::external_body]
    #[verifier::accept_recursive_types(T)]
    pub struct RwLock<T> { _p: core::marker::PhantomData<T> }
    #[verifier::external_body]
    #[verifier::accept_recursive_types(T)]
    pub struct RwLockWriteGuard<T> { _p: core::marker::PhantomData<T> }
    impl<T> RwLock<T> {
        #[verifier::external_body]
        pub fn write(&self, Tracked(w): Tracked<&mut World>) -> (r: Result<RwLockWriteGuard<T>, PoisonError<RwLockWriteGuard<T>>>)
            requires
                !old(w).model_locked,
            ensures
                r is Ok, // ASSUMED: not poisoned
                *final(w) == (World { model_locked: true, ..*old(w) }),
        { unimplemented!() }
    }
    pub enum TryLockError<G> { Poisoned(PoisonError<G>), WouldBlock }
    impl<T> RwLock<T> {
        // std RwLock::try_write: takes the lock if it is free; another thread may hold it
        // (WouldBlock) at any time - which of the two happens is not known
        #[verifier::external_body]
        pub fn try_write(&self, Tracked(w): Tracked<&mut World>) -> (r: Result<RwLockWriteGuard<T>, TryLockError<RwLockWriteGuard<T>>>)
            requires
                !old(w).model_locked,
            ensures
                r is Ok ==> *final(w) == (World { model_locked: true, ..*old(w) }),
                r is Err ==> *final(w) == *old(w) && r->Err_0 is WouldBlock, // ASSUMED: not poisoned (as for write)
        { unimplemented!() }
    }
    /// X5: `Default::default()` for the model lock and the app, and the user's
    /// `WithContext::new_with_context` (user code; it only stores specialised contexts)
    #[verifier::external_body]
    pub fn new_model_lock<T>() -> (r: RwLock<T>) { unimplemented!() }
    #[verifier::external_body]
    pub fn default_app<A: App>() -> (r: A) { unimplemented!() }
    #[verifier::external_body]
    pub fn new_capabilities<A: App>(context: ProtoContext<A::Effect, A::Event>) -> (r: A::Capabilities) { unimplemented!() }
    /// `drop(guard)` (rule X4: std::mem::drop of the write guard releases the lock)
    #[verifier::external_body]
    pub fn drop_write_guard<T>(Tracked(w): Tracked<&mut World>, g: RwLockWriteGuard<T>)
        requires
            old(w).model_locked,
        ensures
            *final(w) == (World { model_locked: false, ..*old(w) }),
    { unimplemented!() }

    // ---- X5: opaque user-facing types
    #[verifier::external_body]
    #[verifier::accept_recursive_types(Effect)]
    #[verifier::accept_recursive_types(Event)]
    pub struct Command<Effect, Event> { _p: core::marker::PhantomData<(Effect, Event)> }
    impl<Effect, Event> Command<Effect, Event> {
        // X17: `command.next().await` - StreamExt::next polls Command::poll_next (proved in command_m)
        // until it is Ready. ASSUMED: the value is logged as yielded; running the hosted command's
        // tasks touches the core's own queues only through the forwarding loop below (a legacy
        // capability used inside a command task would append to them directly: not modelled here).
        #[verifier::external_body]
        pub fn next(&mut self, Tracked(w): Tracked<&mut World>) -> (r: Option<CommandOutput<Effect, Event>>)
            ensures
                core_queues_eq(*old(w), *final(w)),
                old(w).y_events.is_prefix_of(final(w).y_events) && old(w).y_effects.is_prefix_of(final(w).y_effects),
                r matches Some(CommandOutput::Event(e)) ==> final(w).y_events == old(w).y_events.push(val_id(e)) && final(w).y_effects == old(w).y_effects && final(w).y_ended == old(w).y_ended,
                r matches Some(CommandOutput::Effect(f)) ==> final(w).y_effects == old(w).y_effects.push(val_id(f)) && final(w).y_events == old(w).y_events && final(w).y_ended == old(w).y_ended,
                r is None ==> final(w).y_events == old(w).y_events && final(w).y_effects == old(w).y_effects && final(w).y_ended,
        { unimplemented!() }
        // ASSUMED: reads the hosted command's abort flag (proved in command_m: Command::was_aborted)
        #[verifier::external_body]
        pub fn was_aborted(&self, Tracked(w): Tracked<&mut World>) -> (r: bool)
            ensures *final(w) == *old(w),
        { unimplemented!() }
    }
    pub enum CommandOutput<Effect, Event> { Effect(Effect), Event(Event) }
    pub open spec fn core_queues_eq(w1: World, w2: World) -> bool {
        w1.spawn == w2.spawn && w1.ready == w2.ready && w1.events == w2.events && w1.effects == w2.effects
        && w1.applied == w2.applied && w1.model_locked == w2.model_locked
    }
    /// X17: an `async move { .. }` block as a value: the future that will run it
    #[verifier::external_body]
    pub struct OpaqueFuture { _p: u8 }
    #[verifier::external_body]
    pub fn opaque_future() -> OpaqueFuture { unimplemented!() }

//@extract id=cap.ProtoContext file=crux_core/src/capability/mod.rs item="struct ProtoContext"
//@contract
    #[verifier::reject_recursive_types(Eff)]
    #[verifier::reject_recursive_types(Event)]
//@rule X2.vis * s/\n(\s+)(shell_channel|app_channel|spawner):/\n\1pub \2:/
//@rule X11.module-path 1 s/executor::Spawner/Spawner/
//@end
    impl<Eff, Event> Clone for ProtoContext<Eff, Event> {
//@extract id=ProtoContext::clone file=crux_core/src/capability/mod.rs within="impl<Eff, Event> Clone for ProtoContext<Eff, Event>" item="fn clone" props=C01
//@expect fn clone(&self) -> Self
//@sig fn clone(&self) -> (r: Self)
//@contract
            ensures
                r.shell_channel.inner == self.shell_channel.inner && r.app_channel.inner == self.app_channel.inner && r.spawner == self.spawner, // [C01/ProtoContext::clone/a-clone-talks-to-the-same-channels-and-executor]
//@end
    }
//@extract id=cap.CommandSpawner file=crux_core/src/capability/mod.rs item="struct CommandSpawner"
//@contract
    #[verifier::reject_recursive_types(Effect)]
    #[verifier::reject_recursive_types(Event)]
//@rule X2.vis 1 s/^pub\(crate\) struct/pub struct/
//@rule X2.vis 1 s/\n(\s+)context:/\n\1pub context:/
//@end

    impl<Eff, Ev> ProtoContext<Eff, Ev> {
//@extract id=ProtoContext::new file=crux_core/src/capability/mod.rs within="impl<Eff, Ev> ProtoContext<Eff, Ev>" item="fn new" props=C01
//@expect pub(crate) fn new( shell_channel: Sender<Eff>, app_channel: Sender<Ev>, spawner: executor::Spawner, ) -> Self
//@sig pub fn new(shell_channel: Sender<Eff>, app_channel: Sender<Ev>, spawner: Spawner) -> (r: Self)
//@contract
            ensures
                r.shell_channel == shell_channel && r.app_channel == app_channel && r.spawner == spawner, // [C01/ProtoContext::new/keeps-the-three-ends-it-is-given]
//@end
    }

    impl<Effect, Event> CommandSpawner<Effect, Event> {
//@extract id=CommandSpawner::new file=crux_core/src/capability/mod.rs within="impl<Effect, Event> CommandSpawner<Effect, Event>" item="fn new" props=C01
//@expect pub(crate) fn new(context: ProtoContext<Effect, Event>) -> Self
//@sig pub fn new(context: ProtoContext<Effect, Event>) -> (r: Self)
//@contract
            ensures
                r.context == context, // [C01/CommandSpawner::new/forwards-into-the-context-it-is-given]
//@end
    }

    impl<Effect, Event> CommandSpawner<Effect, Event> {
        /// the forwarder's two channels are the core's own effect and event queues and its
        /// spawner feeds the core's executor (established by Core::new)
        pub open spec fn wf(&self) -> bool {
            &&& self.context.spawner.future_sender.role() is Spawn
            &&& forall|e: Effect| #![auto] self.context.shell_channel.inner.accepts(e)
            &&& forall|e: Event| #![auto] self.context.app_channel.inner.accepts(e)
            &&& forall|e: Effect, w1: World, w2: World| #![auto] self.context.shell_channel.inner.effect(e, w1, w2) == pushed(w1, w2, Role::Effects, val_id(e))
            &&& forall|e: Event, w1: World, w2: World| #![auto] self.context.app_channel.inner.effect(e, w1, w2) == pushed(w1, w2, Role::Events, val_id(e))
        }

        // View 1 (what process_event / process rely on): the async block as an opaque future value
//@extract id=CommandSpawner::spawn file=crux_core/src/capability/mod.rs within="impl<Effect, Event> CommandSpawner<Effect, Event>" item="fn spawn" props=C01
//@expect pub(crate) fn spawn(&self, mut command: Command<Effect, Event>) where Command<Effect, Event>: Stream<Item = CommandOutput<Effect, Event>>, Effect: Unpin + Send + 'static, Event: Unpin + Send + 'static,
//@sig pub fn spawn(&self, Tracked(w): Tracked<&mut World>, mut command: Command<Effect, Event>)
//@contract
            requires
                self.wf(),
            ensures
                *final(w) == (World { spawn: old(w).spawn + 1, ..*old(w) }), // [C01/CommandSpawner::spawn/exactly-one-forwarding-task-is-queued-on-the-cores-executor]
//@rule X17.async-opaque 1 block#async move #opaque_future()#
//@rule X6.world 1 s/\bspawner\.spawn\(/spawner.spawn(Tracked(w), /
//@end

        // View 2 (rule X17): the body of that task, read as the loop it runs when polled to its end
//@extract id=CommandSpawner::spawn[task-body] file=crux_core/src/capability/mod.rs within="impl<Effect, Event> CommandSpawner<Effect, Event>" item="fn spawn" props=C01+C03
//@expect pub(crate) fn spawn(&self, mut command: Command<Effect, Event>) where Command<Effect, Event>: Stream<Item = CommandOutput<Effect, Event>>, Effect: Unpin + Send + 'static, Event: Unpin + Send + 'static,
//@sig pub fn spawn__task_body(&self, Tracked(w): Tracked<&mut World>, mut command: Command<Effect, Event>)
//@attr #[verifier::exec_allows_no_decreases_clause]
//@contract
            requires
                self.wf(),
            ensures
                final(w).y_ended, // [C01/forwarder/runs-until-the-command-has-ended]
                old(w).y_events.is_prefix_of(final(w).y_events) && final(w).events == old(w).events + final(w).y_events.subrange(old(w).y_events.len() as int, final(w).y_events.len() as int), // [C01+C03/forwarder/every-event-the-command-yields-reaches-the-cores-event-queue-exactly-once-in-order]
                old(w).y_effects.is_prefix_of(final(w).y_effects) && final(w).effects == old(w).effects + final(w).y_effects.subrange(old(w).y_effects.len() as int, final(w).y_effects.len() as int), // [C01/forwarder/every-effect-the-command-yields-reaches-the-cores-effect-queue-exactly-once-in-order]
                final(w).spawn == old(w).spawn && final(w).ready == old(w).ready && final(w).applied == old(w).applied && final(w).model_locked == old(w).model_locked, // [C01/forwarder/touches-nothing-else-of-the-core]
//@bind ctx let (\w+) = self\.context\.clone\(\);
//@rule X17.await * s/\s*\.await\b//
//@rule X17.async-block 1 s/async move \{/{/
//@rule X17.spawn-projected 1 s/(?:\w+\.)*spawner\.spawn\(/spawn_projected(/
//@rule X6.world * s/command\.next\(\)/command.next(Tracked(w))/
//@rule X6.world * s/\.was_aborted\(\)/.was_aborted(Tracked(w))/
//@loops 1
//@loop 1
                    invariant
                        $ctx.shell_channel.inner == self.context.shell_channel.inner && $ctx.app_channel.inner == self.context.app_channel.inner,
                        self.wf(),
                        old(w).y_events.is_prefix_of(w.y_events) && w.events == old(w).events + w.y_events.subrange(old(w).y_events.len() as int, w.y_events.len() as int), // [C01+C03/forwarder/loop/events-forwarded-so-far-are-exactly-the-events-yielded-so-far]
                        old(w).y_effects.is_prefix_of(w.y_effects) && w.effects == old(w).effects + w.y_effects.subrange(old(w).y_effects.len() as int, w.y_effects.len() as int), // [C01/forwarder/loop/effects-forwarded-so-far-are-exactly-the-effects-yielded-so-far]
                        w.spawn == old(w).spawn && w.ready == old(w).ready && w.applied == old(w).applied && w.model_locked == old(w).model_locked,
                    ensures
                        w.y_ended,
//@end
    }
    /// X17: the task handed to the executor has, in the projection, already run to its end
    pub fn spawn_projected(_task: ()) {}

    pub trait Operation { type Output; }
    #[verifier::external_body]
    #[verifier::accept_recursive_types(Op)]
    pub struct Request<Op: Operation> { _p: core::marker::PhantomData<Op> }
    impl<Op: Operation> Request<Op> {
        // ASSUMED here; the Err half is PROVED by Kani (unit A: a rejected resolution calls no
        // continuation). An accepted resolution runs the continuation: it hands the value to
        // the waiting task and wakes it.
        #[verifier::external_body]
        pub fn resolve(&mut self, Tracked(w): Tracked<&mut World>, output: Op::Output) -> (r: Result<(), ResolveError>)
            requires
                !old(w).model_locked,
            ensures
                r is Err ==> *final(w) == *old(w),
                core_havoc(*old(w), *final(w)),
        { unimplemented!() }
    }
//@extract id=ResolveError file=crux_core/src/core/resolve.rs item="enum ResolveError"
//@end

    // ---- capability/mod.rs: the legacy capability context's two direct sends
//@extract id=cap.ContextInner file=crux_core/src/capability/mod.rs item="struct ContextInner"
//@contract
    #[verifier::reject_recursive_types(Op)]
    #[verifier::reject_recursive_types(Event)]
//@rule X2.vis 1 s/^struct ContextInner/pub struct ContextInner/
//@rule X2.vis * s/\n(\s+)(shell_channel|app_channel|spawner):/\n\1pub \2:/
//@rule X11.module-path 1 s/executor::Spawner/Spawner/
//@end
//@extract id=cap.CapabilityContext file=crux_core/src/capability/mod.rs item="struct CapabilityContext"
//@contract
    #[verifier::reject_recursive_types(Op)]
    #[verifier::reject_recursive_types(Event)]
//@rule X2.vis 1 s/\binner:/pub inner:/
//@end

    impl<Op, Ev> CapabilityContext<Op, Ev>
    where
        Op: Operation,
    {
//@extract id=CapabilityContext::update_app file=crux_core/src/capability/mod.rs within="impl<Op, Ev> CapabilityContext<Op, Ev>" item="fn update_app" props=C03
//@expect pub fn update_app(&self, event: Ev)
//@sig pub fn update_app(&self, Tracked(w): Tracked<&mut World>, event: Ev)
//@contract
            requires
                self.inner.app_channel.inner.accepts(event),
            ensures
                self.inner.app_channel.inner.effect(event, *old(w), *final(w)), // [C03/update_app/the-event-is-sent-exactly-once-on-the-capabilitys-app-channel]
//@end

//@extract id=CapabilityContext::send_request file=crux_core/src/capability/mod.rs within="impl<Op, Ev> CapabilityContext<Op, Ev>" item="fn send_request" props=C01
//@expect pub(crate) fn send_request(&self, request: Request<Op>)
//@sig pub fn send_request(&self, Tracked(w): Tracked<&mut World>, request: Request<Op>)
//@contract
            requires
                self.inner.shell_channel.inner.accepts(request),
            ensures
                self.inner.shell_channel.inner.effect(request, *old(w), *final(w)), // [C01/send_request/the-request-is-sent-exactly-once-on-the-capabilitys-shell-channel]
//@end
    }

    /// The user's app. `update` is user code: it may use legacy capabilities (spawn tasks, send
    /// events) - HAVOC restricted to appends - and it is the one place an event is applied.
    pub trait App: Sized {
        type Event;
        type Model;
        type ViewModel;
        type Capabilities;
        type Effect;
        fn update(&self, Tracked(w): Tracked<&mut World>, event: Self::Event, model: &mut RwLockWriteGuard<Self::Model>, caps: &Self::Capabilities) -> (r: Command<Self::Effect, Self::Event>)
            requires
                old(w).model_locked, // update only ever runs under the write guard (C03: never concurrently, never re-entrantly)
            ensures
                final(w).applied == old(w).applied.push(val_id(event)),
                old(w).events.is_prefix_of(final(w).events),
                old(w).effects.is_prefix_of(final(w).effects),
                final(w).model_locked == old(w).model_locked,
                (old(w).applied.push(val_id(event)) + old(w).events).is_prefix_of(event_log(*final(w))), // consequence of the lines on applied/events (lemma_update_log)
        ;
    }

//@extract id=Core file=crux_core/src/core/mod.rs item="struct Core"
//@end

    impl<A> Core<A>
    where
        A: App,
    {
        /// the two receivers are the core's event and effect queues and the executor is well formed
        /// (established by Core::new)
        pub closed spec fn wf(&self) -> bool {
            self.requests.inner.role() is Effects && self.capability_events.inner.role() is Events && self.executor.wf()
            && self.command_spawner.wf()
        }
        /// between calls no task is being polled (sequential reading; see QueuingExecutor::idle)
        pub closed spec fn idle(&self) -> bool { self.executor.idle() }

//@extract id=Core::new file=crux_core/src/core/mod.rs within="impl<A> Core<A>" item="fn new" props=C01+C03
//@expect pub fn new() -> Self where A::Capabilities: WithContext<A::Event, A::Effect>,
//@sig pub fn new() -> (r: Self) where A::Effect: 'static, A::Event: 'static,
//@contract
            ensures
                r.wf(), // [C01+C03/Core::new/the-receivers-the-forwarder-and-the-executor-are-wired-to-the-cores-own-four-queues]
                r.idle(), // [C01/Core::new/starts-with-no-task]
//@rule X6.channel-role 1 s/let \(request_sender, request_receiver\) = capability::channel\(\);/let (request_sender, request_receiver) = channel::channel(Ghost(Role::Effects));/
//@rule X6.channel-role 1 s/let \(event_sender, event_receiver\) = capability::channel\(\);/let (event_sender, event_receiver) = channel::channel(Ghost(Role::Events));/
//@rule X11.module-path 1 s/capability::executor_and_spawner\(\)/executor_and_spawner()/
//@rule X5.user-types 1 s/model: Default::default\(\),/model: new_model_lock(),/
//@rule X5.user-types 1 s/app: Default::default\(\),/app: default_app(),/
//@rule X5.user-types 1 s/<<A as App>::Capabilities>::new_with_context\((\w+)\)/new_capabilities::<A>(\1)/
//@end

//@extract id=Core::process_event file=crux_core/src/core/mod.rs within="impl<A> Core<A>" item="fn process_event" props=C01+C03
//@expect pub fn process_event(&self, event: A::Event) -> Vec<A::Effect>
//@sig pub fn process_event(&mut self, Tracked(w): Tracked<&mut World>, event: A::Event) -> (r: Vec<A::Effect>)
//@contract
            requires
                old(self).wf(), old(self).idle(),
                !old(w).model_locked,
            ensures
                final(w).spawn == 0 && final(w).ready == 0, // [C01/process_event/no-runnable-work-left-behind]
                final(w).events.len() == 0, // [C01+C03/process_event/every-internally-emitted-event-has-been-applied]
                final(w).effects.len() == 0, // [C01/process_event/no-effect-deferred-to-a-later-call]
                old(w).effects.is_prefix_of(channel::ids(r@)), // [C01/process_event/effects-handed-over-exactly-once-in-order]
                (old(w).applied.push(val_id(event)) + old(w).events).is_prefix_of(final(w).applied), // [C03/process_event/the-shells-event-then-every-queued-event-applied-exactly-once-in-order]
                !final(w).model_locked, // [C03/process_event/model-released]
//@rule X6.world * s/\.write\(\)/.write(Tracked(w))/
//@rule X6.world * s/\.update\(/.update(Tracked(w), /
//@rule X6.world * s/\.spawn\(/.spawn(Tracked(w), /
//@rule X6.world * s/self\.process\(\)/self.process(Tracked(w))/
//@rule X4.guard-drop 1 s/\bdrop\((\w+)\);/drop_write_guard(Tracked(w), \1);/
//@end

//@extract id=Core::resolve file=crux_core/src/core/mod.rs within="impl<A> Core<A>" item="fn resolve" props=C01+C02+C03
//@expect pub fn resolve<Op>( &self, request: &mut Request<Op>, result: Op::Output, ) -> Result<Vec<A::Effect>, ResolveError> where Op: Operation, // ANCHOR_END: resolve_sig
//@sig pub fn resolve<Op>(&mut self, Tracked(w): Tracked<&mut World>, request: &mut Request<Op>, result: Op::Output) -> (r: Result<Vec<A::Effect>, ResolveError>) where Op: Operation,
//@contract
            requires
                old(self).wf(), old(self).idle(),
                !old(w).model_locked,
            ensures
                r is Err ==> *final(w) == *old(w), // [C01+C02/resolve/a-rejected-resolution-is-returned-as-an-error-and-has-no-effect]
                r is Ok ==> final(w).spawn == 0 && final(w).ready == 0, // [C01/resolve/no-runnable-work-left-behind]
                r is Ok ==> final(w).events.len() == 0 && final(w).effects.len() == 0, // [C01/resolve/nothing-deferred-to-a-later-call]
                r is Ok ==> old(w).effects.is_prefix_of(channel::ids(r->Ok_0@)), // [C01/resolve/effects-handed-over-exactly-once-in-order]
                r is Ok ==> event_log(*old(w)).is_prefix_of(final(w).applied), // [C03/resolve/emitted-events-applied-exactly-once-in-order]
                !final(w).model_locked,
//@rule X6.world * s/request\.resolve\(/request.resolve(Tracked(w), /
//@rule X6.world * s/self\.process\(\)/self.process(Tracked(w))/
//@rule X9.debug-assert * s#debug_assert!\(([^;]*)\);#assert(\1); // [C02/resolve/debug-assertion-cannot-fire]#
//@end

//@extract id=Core::process file=crux_core/src/core/mod.rs within="impl<A> Core<A>" item="fn process" props=C01+C03+C05
//@expect pub(crate) fn process(&self) -> Vec<A::Effect>
//@sig pub fn process(&mut self, Tracked(w): Tracked<&mut World>) -> (r: Vec<A::Effect>)
//@attr #[verifier::exec_allows_no_decreases_clause]
//@contract
            requires
                old(self).wf(), old(self).idle(),
                !old(w).model_locked,
            ensures
                final(w).spawn == 0 && final(w).ready == 0, // [C01+C05/process/no-runnable-work-left-behind]
                final(w).events.len() == 0, // [C01+C03+C05/process/every-internally-emitted-event-has-been-applied]
                final(w).effects.len() == 0, // [C01/process/no-effect-deferred-to-a-later-call]
                old(w).effects.is_prefix_of(channel::ids(r@)), // [C01/process/effects-handed-over-exactly-once-in-order]
                event_log(*old(w)).is_prefix_of(final(w).applied), // [C03/process/queued-events-applied-exactly-once-in-FIFO-order]
                !final(w).model_locked, // [C03/process/model-released]
//@rule X6.world * s/\.run_all\(\)/.run_all(Tracked(w))/
//@rule X6.world * s/\.receive\(\)/.receive(Tracked(w))/
//@rule X6.world * s/\.write\(\)/.write(Tracked(w))/
//@rule X6.world * s/\.update\(/.update(Tracked(w), /
//@rule X6.world * s/\.spawn\(/.spawn(Tracked(w), /
//@rule X4.guard-drop 1 s/\bdrop\((\w+)\);/drop_write_guard(Tracked(w), \1);/
//@rule X13.collect 1 s/self\.requests\.drain\(\)\.collect\(\)/collect_drain(Tracked(w), self.requests.drain())/
//@loops 1
//@loop 1
                invariant
                    self.wf(), self.idle(),
                    !w.model_locked, // [C03/process/loop/model-released-before-tasks-run-and-before-the-next-event]
                    w.spawn == 0 && w.ready == 0, // [C01/process/loop/tasks-made-runnable-by-an-update-have-run-before-the-next-event]
                    old(w).effects.is_prefix_of(w.effects), // [C01/process/loop/no-effect-removed-before-the-drain]
                    event_log(*old(w)).is_prefix_of(event_log(*w)), // [C03/process/loop/one-update-per-dequeued-event-none-lost-or-reordered]
                ensures
                    w.events.len() == 0,
//@end
    }
}

// ================================================================== command/{mod,executor,stream,context}.rs
pub mod command_m {
    use super::*;

    // ---- X5: opaque std / futures types used only by the command
    #[verifier::external_body]
    pub struct AtomicWaker { _p: u8 }
    #[verifier::external_body]
    pub struct AtomicBool { _p: u8 }
    pub enum Ordering { Relaxed, Release, Acquire, AcqRel, SeqCst }

    /// whose flag an Arc<AtomicBool> is
    pub enum Flag { CommandAborted, Other }
    impl Arc<AtomicBool> {
        pub uninterp spec fn flag(&self) -> Flag;
        // Sequential reading of the command's abort flag (shared with AbortHandles; C06/C08 are not claimed)
        #[verifier::external_body]
        pub fn load(&self, Tracked(w): Tracked<&mut World>, o: Ordering) -> (r: bool)
            ensures
                *final(w) == *old(w),
                self.flag() is CommandAborted ==> r == old(w).c_aborted,
        { unimplemented!() }
        #[verifier::external_body]
        pub fn store(&self, Tracked(w): Tracked<&mut World>, v: bool, o: Ordering)
            ensures
                !(self.flag() is CommandAborted) ==> *final(w) == *old(w),
                self.flag() is CommandAborted ==> *final(w) == (World { c_aborted: v, ..*old(w) }),
        { unimplemented!() }
    }
    impl Arc<AtomicWaker> {
        #[verifier::external_body]
        pub fn register(&self, waker: &Waker)
        { unimplemented!() }
    }

//@extract id=cmd.TaskId file=crux_core/src/command/executor.rs item="struct TaskId"
//@rule X2.vis * s/pub\(crate\)/pub/
//@contract
    #[derive(Clone, Copy)]
//@end
//@extract id=cmd.TaskState file=crux_core/src/command/executor.rs item="enum TaskState"
//@rule X2.vis * s/pub\(crate\)/pub/
//@end
//@extract id=cmd.Task file=crux_core/src/command/executor.rs item="struct Task"
//@rule X2.vis * s/pub\(crate\)/pub/
//@rule X5.boxfuture 1 s/BoxFuture<'static, \(\)>/BoxFuture/
//@end
//@extract id=cmd.CommandOutput file=crux_core/src/command/stream.rs item="enum CommandOutput"
//@end
//@extract id=cmd.CommandContext file=crux_core/src/command/context.rs item="struct CommandContext"
//@rule X2.vis * s/pub\(crate\)/pub/
//@end
//@extract id=cmd.Command file=crux_core/src/command/mod.rs item="struct Command"
//@rule X2.vis * s/\n(\s+)(effects|events|context|ready_queue|spawn_queue|tasks|ready_sender|waker|aborted):/\n\1pub \2:/
//@end

//@extract id=cmd.CommandWaker file=crux_core/src/command/executor.rs item="struct CommandWaker"
//@rule X2.vis * s/pub\(crate\)/pub/
//@rule X2.vis 1 s/\n(\s+)woken:/\n\1pub woken:/
//@end

    impl AtomicBool {
        /// whether this is the `woken` flag of the waker of the poll in progress / last done
        pub uninterp spec fn is_current_poll_flag(&self) -> bool;
        #[verifier::external_body]
        pub fn new(v: bool) -> (r: AtomicBool)
        { unimplemented!() }
        #[verifier::external_body]
        pub fn store(&self, Tracked(w): Tracked<&mut World>, v: bool, o: Ordering)
            ensures
                self.is_current_poll_flag() ==> *final(w) == (World { p_woken: v, ..*old(w) }),
                !self.is_current_poll_flag() ==> *final(w) == *old(w),
        { unimplemented!() }
    }
    impl Arc<AtomicWaker> {
        // ASSUMED: futures AtomicWaker::wake wakes the waker the host registered (a no-op if none)
        #[verifier::external_body]
        pub fn wake(&self, Tracked(w): Tracked<&mut World>)
            ensures *final(w) == (World { host_woken: true, ..*old(w) }),
        { unimplemented!() }
    }

    // X7: `impl Wake for CommandWaker { fn wake_by_ref(self: &Arc<Self>) }` lifted to an inherent
    // method on the pointee (Arc deref)
    impl CommandWaker {
//@extract id=CommandWaker::wake file=crux_core/src/command/executor.rs within="impl Wake for CommandWaker" item="fn wake" props=C01+C05+C07
//@expect fn wake(self: Arc<Self>)
//@sig pub fn wake(&self, Tracked(w): Tracked<&mut World>)
//@contract
            requires
                self.ready_queue.role() is CReady,
            ensures
                final(w).c_ready == old(w).c_ready + 1, // [C01+C05/CommandWaker::wake/the-woken-task-is-queued-exactly-once]
                final(w).host_woken, // [C01+C05/CommandWaker::wake/the-commands-host-is-woken-too]
                self.woken.is_current_poll_flag() ==> final(w).p_woken, // [C01+C05+C07/CommandWaker::wake/a-waker-consumed-by-value-still-records-that-it-was-used]
                *final(w) == (World { c_ready: final(w).c_ready, host_woken: true, p_woken: final(w).p_woken, ..*old(w) }),
//@rule X6.world * s/(?:self\.wake_by_ref\(\)|Self::wake_by_ref\(&self\))/self.wake_by_ref(Tracked(w))/
//@rule X6.world * s/\.wake\(\)/.wake(Tracked(w))/
//@end

//@extract id=CommandWaker::wake_by_ref file=crux_core/src/command/executor.rs within="impl Wake for CommandWaker" item="fn wake_by_ref" props=C01+C05
//@expect fn wake_by_ref(self: &Arc<Self>)
//@sig pub fn wake_by_ref(&self, Tracked(w): Tracked<&mut World>)
//@contract
            requires
                self.ready_queue.role() is CReady, // the waker was made by Command::run_task from the command's own ready_sender
            ensures
                final(w).c_ready == old(w).c_ready + 1, // [C01+C05/CommandWaker::wake_by_ref/the-woken-task-is-queued-on-its-commands-ready-queue-exactly-once]
                final(w).host_woken, // [C01+C05/CommandWaker::wake_by_ref/the-commands-host-is-woken-too-no-wake-up-lost-between-layers]
                self.woken.is_current_poll_flag() ==> final(w).p_woken, // [C01+C05+C07/CommandWaker::wake_by_ref/the-waker-records-that-it-was-used]
                *final(w) == (World { c_ready: final(w).c_ready, host_woken: true, p_woken: final(w).p_woken, ..*old(w) }),
//@rule X6.world * s/\.wake\(\)/.wake(Tracked(w))/
//@end
    }
    impl<T> Clone for Arc<T> {
        // std Arc::clone: another handle to the same allocation
        #[verifier::external_body]
        fn clone(&self) -> (r: Self)
            ensures r == *self,
        { unimplemented!() }
    }

    // ---- the waker of one poll (std Arc / Waker / AtomicBool calls of Command::run_task, rule
    // X6.poll-waker): ASSUMED to behave as reference counting does. The strong count of the
    // Arc<CommandWaker> is 1 for the local handle, +1 while the Waker made from it lives, +1 for
    // every clone of that Waker user code has kept.
    #[verifier::external_body]
    pub fn new_poll_waker(Tracked(w): Tracked<&mut World>, cw: CommandWaker) -> (r: Arc<CommandWaker>)
        ensures *final(w) == (World { p_refs: 1, p_woken: false, ..*old(w) }),
    { unimplemented!() }
    #[verifier::external_body]
    pub fn waker_of(Tracked(w): Tracked<&mut World>, a: &Arc<CommandWaker>) -> (r: Waker)
        ensures *final(w) == (World { p_refs: old(w).p_refs + 1, ..*old(w) }),
    { unimplemented!() }
    #[verifier::external_body]
    pub fn drop_waker(Tracked(w): Tracked<&mut World>, waker: Waker)
        ensures *final(w) == (World { p_refs: (old(w).p_refs - 1) as nat, ..*old(w) }),
    { unimplemented!() }
    #[verifier::external_body]
    pub fn poll_waker_woken(Tracked(w): Tracked<&mut World>, a: &Arc<CommandWaker>) -> (r: bool)
        ensures r == old(w).p_woken, *final(w) == *old(w),
    { unimplemented!() }
    #[verifier::external_body]
    pub fn poll_waker_refs(Tracked(w): Tracked<&mut World>, a: &Arc<CommandWaker>) -> (r: usize)
        ensures r as nat == old(w).p_refs, *final(w) == *old(w),
    { unimplemented!() }
    // ASSUMED (havoc): polling the task's future (Pin::as_mut + Future::poll) runs user code: it
    // may spawn, wake, emit (append), set abort flags, wake this poll's waker and keep clones of
    // it (it cannot drop the two handles run_task holds). It changes the future's state, not
    // which task this is.
    #[verifier::external_body]
    pub fn poll_task(Tracked(w): Tracked<&mut World>, task: &mut Task, cx: &mut Context<'_>) -> (r: Poll<()>)
        ensures
            val_id(*final(task)) == val_id(*old(task)),
            cmd_outputs_appended(*old(w), *final(w)),
            old(w).c_aborted ==> final(w).c_aborted,
            final(w).known == old(w).known, final(w).finished == old(w).finished, final(w).join_notified == old(w).join_notified,
            final(w).p_refs >= old(w).p_refs,
            final(w).p_pending == (r is Pending),
            final(w).p_polls == old(w).p_polls + 1,
            old(w).aborted_tasks.subset_of(final(w).aborted_tasks),
    { unimplemented!() }
    impl Task {
        // ASSUMED: `self.aborted.load(Ordering::Acquire)` reads the task's own abort flag (set by
        // JoinHandle::abort), read sequentially
        #[verifier::external_body]
        pub fn is_aborted(&self, Tracked(w): Tracked<&mut World>) -> (r: bool)
            ensures
                r == old(w).aborted_tasks.contains(val_id(*self)),
                *final(w) == *old(w),
        { unimplemented!() }

        // ASSUMED (havoc): waking join handles wakes other tasks, which re-queues their ids.
        // (body: a `for` over crossbeam's try_iter calling Waker::wake - user wakers)
        #[verifier::external_body]
        pub fn wake_join_handles(&self, Tracked(w): Tracked<&mut World>)
            ensures
                final(w).c_ready >= old(w).c_ready,
                *final(w) == (World { c_ready: final(w).c_ready, join_notified: old(w).join_notified.insert(val_id(*self)), ..*old(w) }),
        { unimplemented!() }
    }
    // `drop(task)` is the top-level std::mem::drop model: the task's future and everything it
    // captured are dropped there

    /// no task still held by the command has been reported finished or cancelled (C13); the held
    /// tasks are pairwise different tasks, all of which entered through the spawn queue (or new())
    pub open spec fn no_finished_task_held<Effect, Event>(c: Command<Effect, Event>, w: World) -> bool {
        &&& forall|k: usize| #[trigger] c.tasks@.dom().contains(k) ==> !w.finished.contains(val_id(c.tasks@[k])) && w.known.contains(val_id(c.tasks@[k]))
        &&& forall|k1: usize, k2: usize| #[trigger] c.tasks@.dom().contains(k1) && #[trigger] c.tasks@.dom().contains(k2) && k1 != k2 ==> val_id(c.tasks@[k1]) != val_id(c.tasks@[k2])
    }
    /// every task reported finished or cancelled has had its join handles woken (so that a task
    /// awaiting it becomes runnable again)
    pub open spec fn joiners_notified(w: World) -> bool {
        w.finished.subset_of(w.join_notified)
    }
    /// every task of `a` is still held by `b` (same slot, same task) or has been reported
    /// finished or cancelled: a task that something can still wake is never discarded (C07)
    pub open spec fn discarded_only_finished(a: Map<usize, Task>, b: Map<usize, Task>, w: World) -> bool {
        forall|k: usize| #[trigger] a.dom().contains(k) ==> (b.dom().contains(k) && val_id(b[k]) == val_id(a[k])) || w.finished.contains(val_id(a[k]))
    }
    pub open spec fn tasks_kept(a: Map<usize, Task>, b: Map<usize, Task>) -> bool {
        forall|k: usize| #[trigger] a.dom().contains(k) ==> b.dom().contains(k) && b[k] == a[k]
    }
    pub open spec fn cmd_outputs_appended(a: World, b: World) -> bool {
        a.c_events.is_prefix_of(b.c_events) && a.c_effects.is_prefix_of(b.c_effects)
    }

//@extract id=cmd.AbortHandle file=crux_core/src/command/executor.rs item="struct AbortHandle"
//@rule X2.vis * s/pub\(crate\)/pub/
//@end

    impl AbortHandle {
//@extract id=AbortHandle::abort file=crux_core/src/command/executor.rs within="impl AbortHandle" item="fn abort" props=C06
//@expect pub fn abort(&self)
//@sig pub fn abort(&self, Tracked(w): Tracked<&mut World>)
//@contract
            requires
                self.aborted.flag() is CommandAborted, // a handle made by Command::abort_handle (proved below)
            ensures
                *final(w) == (World { c_aborted: true, ..*old(w) }), // [C06/AbortHandle::abort/sets-exactly-the-commands-abort-flag]
//@end
    }

    // ---- models used by the constructors
    /// `crossbeam_channel::unbounded()` for one of the command's own queues: the World tracks the
    /// queues of ONE command, so creating that command's channel (rule X6.channel-role gives the
    /// role) starts the role's queue afresh - a new channel is empty
    #[verifier::external_body]
    pub fn new_channel<T>(Tracked(w): Tracked<&mut World>, Ghost(role): Ghost<Role>) -> (r: (Sender<T>, Receiver<T>))
        ensures
            r.0.role() == role, r.1.role() == role,
            queue_len(*final(w), role) == 0,
            match role {
                Role::CSpawn => *final(w) == (World { c_spawn: 0, ..*old(w) }),
                Role::CReady => *final(w) == (World { c_ready: 0, ..*old(w) }),
                Role::CEvents => *final(w) == (World { c_events: Seq::<int>::empty(), ..*old(w) }),
                Role::CEffects => *final(w) == (World { c_effects: Seq::<int>::empty(), ..*old(w) }),
                _ => *final(w) == *old(w),
            },
    { unimplemented!() }
    /// `Default::default()` for an `Arc<AtomicBool>`: a new flag, false
    #[verifier::external_body]
    pub fn new_flag(Tracked(w): Tracked<&mut World>, Ghost(flag): Ghost<Flag>) -> (r: Arc<AtomicBool>)
        ensures
            r.flag() == flag,
            flag is CommandAborted ==> *final(w) == (World { c_aborted: false, ..*old(w) }),
            !(flag is CommandAborted) ==> *final(w) == *old(w),
    { unimplemented!() }
    #[verifier::external_body]
    pub fn new_atomic_waker() -> (r: Arc<AtomicWaker>)
    { unimplemented!() }
    /// a task-making closure that only builds a future (sends, spawns and emits nothing while
    /// being called): true of `|_ctx| ready(())` and of the hosting closures of Command::all/and
    pub uninterp spec fn is_quiet<F>(f: F) -> bool;
    /// ASSUMED (havoc): calling the user's task-making closure runs user code with the context:
    /// it may emit, send and spawn (append only) - unless it is quiet
    #[verifier::external_body]
    pub fn call_task_maker<F: FnOnce(C) -> Fut, C, Fut>(Tracked(w): Tracked<&mut World>, f: F, ctx: C) -> (r: Fut)
        ensures
            is_quiet(f) ==> *final(w) == *old(w),
            cmd_outputs_appended(*old(w), *final(w)),
            final(w).c_spawn >= old(w).c_spawn,
            *final(w) == (World { c_spawn: final(w).c_spawn, c_events: final(w).c_events, c_effects: final(w).c_effects, ..*old(w) }),
    { unimplemented!() }
    #[verifier::external_body]
    pub struct ReadyFuture { _p: u8 }
    #[verifier::external_body]
    pub fn ready_future() -> ReadyFuture { unimplemented!() }
    /// ASSUMED, attached by counted rules to exactly the closure texts `|_ctx| futures::future::ready(())`
    /// (Command::done) and `|ctx| c.host(ctx.effects, ctx.events).map(|_| ())` (Command::all / and):
    /// building such a future sends, spawns and emits nothing
    #[verifier::external_body]
    pub fn quiet<F>(f: F) -> (r: F)
        ensures r == f, is_quiet(r),
    { unimplemented!() }

    /// X17/X5: `c.host(ctx.effects, ctx.events).map(|_| ())` - the future that forwards the hosted
    /// command's outputs into the host's channels (CommandSink::start_send, proved above), opaque
    #[verifier::external_body]
    pub struct HostFuture { _p: u8 }
    #[verifier::external_body]
    pub fn host_future<Effect, Event>(c: Command<Effect, Event>, ctx: CommandContext<Effect, Event>) -> HostFuture
    { unimplemented!() }

//@extract id=cmd.JoinHandle file=crux_core/src/command/executor.rs item="struct JoinHandle"
//@rule X2.vis * s/pub\(crate\)/pub/
//@end

    impl<Effect, Event> CommandContext<Effect, Event> {
//@extract id=CommandContext::spawn file=crux_core/src/command/context.rs within="impl<Effect, Event> CommandContext<Effect, Event>" item="fn spawn" props=C01+C06
//@expect pub fn spawn<F, Fut>(&self, make_future: F) -> JoinHandle where F: FnOnce(CommandContext<Effect, Event>) -> Fut, Fut: Future<Output = ()> + Send + 'static,
//@sig pub fn spawn<F, Fut>(&self, Tracked(w): Tracked<&mut World>, make_future: F) -> (r: JoinHandle) where F: FnOnce(CommandContext<Effect, Event>) -> Fut,
//@contract
            requires
                self.tasks.role() is CSpawn,
            ensures
                final(w).c_spawn >= old(w).c_spawn + 1, // [C01/CommandContext::spawn/the-new-task-enters-the-commands-spawn-queue]
                is_quiet(make_future) ==> *final(w) == (World { c_spawn: old(w).c_spawn + 1, ..*old(w) }), // [C01/CommandContext::spawn/exactly-one-task-is-queued-and-nothing-else-changes]
                !(r.aborted.flag() is CommandAborted), // [C06/CommandContext::spawn/aborting-the-join-handle-does-not-abort-the-command]
                r.register_waker.role() is JoinWakers, // [C07/CommandContext::spawn/the-join-handle-registers-its-wakers-with-the-new-task]
//@rule X6.channel-role 1 s/crossbeam_channel::unbounded\(\)/new_channel(Tracked(w), Ghost(Role::JoinWakers))/
//@rule X6.flag-role 2 s/(finished|aborted): Default::default\(\),/\1: new_flag(Tracked(w), Ghost(Flag::Other)),/
//@rule X6.user-code 1 s/let future = make_future\(([^;]*)\);/let future = call_task_maker(Tracked(w), make_future, \1);/
//@rule X5.boxed 1 s/future\.boxed\(\)/boxed(future)/
//@end

//@extract id=CommandContext::send_event file=crux_core/src/command/context.rs within="impl<Effect, Event> CommandContext<Effect, Event>" item="fn send_event" props=C03
//@expect pub fn send_event(&self, event: Event)
//@sig pub fn send_event(&self, Tracked(w): Tracked<&mut World>, event: Event)
//@contract
            requires
                self.events.role() is CEvents,
            ensures
                *final(w) == (World { c_events: old(w).c_events.push(val_id(event)), ..*old(w) }), // [C03/send_event/appends-exactly-this-event-to-the-FIFO-queue]
//@rule X6.world * s/\.send\(/.send(Tracked(w), /
//@end
    }

    // ---- command/stream.rs: the sink a hosted (nested) command's outputs are forwarded into
//@extract id=cmd.CommandSink file=crux_core/src/command/stream.rs item="struct CommandSink"
//@rule X2.vis * s/pub\(crate\)/pub/
//@end
//@extract id=cmd.HostedCommandError file=crux_core/src/command/stream.rs item="enum HostedCommandError"
//@rule X2.vis * s/pub\(crate\)/pub/
//@end
    impl<Effect, Event> CommandSink<Effect, Event> {
//@extract id=CommandSink::start_send file=crux_core/src/command/stream.rs within="impl<Effect, Event> Sink<CommandOutput<Effect, Event>> for CommandSink<Effect, Event>" item="fn start_send" props=C01+C03+C04
//@expect fn start_send( self: Pin<&mut Self>, item: CommandOutput<Effect, Event>, ) -> Result<(), Self::Error>
//@sig pub fn start_send(&mut self, Tracked(w): Tracked<&mut World>, item: CommandOutput<Effect, Event>) -> (r: Result<(), HostedCommandError>)
//@contract
            ensures
                r is Ok,
                item matches CommandOutput::Effect(e) ==> pushed(*old(w), *final(w), old(self).effects.role(), val_id(e)), // [C01+C04/CommandSink::start_send/an-effect-goes-to-the-hosts-effect-channel-exactly-once]
                item matches CommandOutput::Event(e) ==> pushed(*old(w), *final(w), old(self).events.role(), val_id(e)), // [C01+C03+C04/CommandSink::start_send/an-event-goes-to-the-hosts-event-channel-exactly-once]
                *final(self) == *old(self),
//@rule X8.closure-wildcard * s/\|_\|/|_e|/
//@end
    }

    impl Clone for Waker {
        // ASSUMED: std Waker::clone - a clone wakes the same task
        #[verifier::external_body]
        fn clone(&self) -> (r: Self) { unimplemented!() }
    }
    impl JoinHandle {
//@extract id=JoinHandle::is_finished file=crux_core/src/command/executor.rs within="impl JoinHandle" item="fn is_finished" props=C07
//@expect pub(crate) fn is_finished(&self) -> bool
//@sig pub fn is_finished(&self, Tracked(w): Tracked<&mut World>) -> (r: bool)
//@contract
            ensures
                *final(w) == *old(w), // [C07/JoinHandle::is_finished/only-reads-the-tasks-finished-flag]
//@end

//@extract id=JoinHandle::abort file=crux_core/src/command/executor.rs within="impl JoinHandle" item="fn abort" props=C06
//@expect pub fn abort(&self)
//@sig pub fn abort(&self, Tracked(w): Tracked<&mut World>)
//@contract
            requires
                !(self.aborted.flag() is CommandAborted), // a handle made by CommandContext::spawn (proved above)
            ensures
                *final(w) == *old(w), // [C06/JoinHandle::abort/does-not-touch-the-commands-abort-flag-or-any-queue]
//@end

//@extract id=JoinHandle::poll file=crux_core/src/command/executor.rs within="impl Future for JoinHandle" item="fn poll" props=C07
//@expect fn poll(self: Pin<&mut Self>, cx: &mut Context<'_>) -> Poll<Self::Output>
//@expect fn poll(mut self: Pin<&mut Self>, cx: &mut Context<'_>) -> Poll<Self::Output>
//@sig pub fn poll(&mut self, Tracked(w): Tracked<&mut World>, cx: &mut Context<'_>) -> (r: Poll<()>)
//@contract
            requires
                old(self).register_waker.role() is JoinWakers,
            ensures
                r is Pending ==> final(w).jw_sent == old(w).jw_sent + 1, // [C07/JoinHandle::poll/pending-only-with-this-polls-waker-registered-with-the-awaited-task]
                *final(w) == (World { jw_sent: final(w).jw_sent, ..*old(w) }), // [C07/JoinHandle::poll/touches-nothing-else]
                final(self).register_waker.role() is JoinWakers,
//@rule X6.world * s/self\.is_finished\(\)/self.is_finished(Tracked(w))/
//@end
    }

    impl<Effect, Event> Clone for CommandContext<Effect, Event> {
//@extract id=CommandContext::clone file=crux_core/src/command/context.rs within="impl<Effect, Event> Clone for CommandContext<Effect, Event>" item="fn clone" props=C01
//@expect fn clone(&self) -> Self
//@sig fn clone(&self) -> (r: Self)
//@contract
            ensures
                r.effects.role() == self.effects.role() && r.events.role() == self.events.role() && r.tasks.role() == self.tasks.role(), // [C01/CommandContext::clone/a-clone-feeds-the-same-three-queues]
//@end
    }

    impl<Effect, Event> Command<Effect, Event> {
        /// the channel ends are this command's own queues (established by Command::new)
        pub open spec fn wf(&self) -> bool {
            self.effects.role() is CEffects && self.events.role() is CEvents
            && self.ready_queue.role() is CReady && self.spawn_queue.role() is CSpawn
            && self.ready_sender.role() is CReady && self.aborted.flag() is CommandAborted
            && self.context.effects.role() is CEffects && self.context.events.role() is CEvents && self.context.tasks.role() is CSpawn
        }

//@extract id=Command::new file=crux_core/src/command/mod.rs within="impl<Effect, Event> Command<Effect, Event>" item="fn new" props=C01+C04+C06
//@expect pub fn new<F, Fut>(create_task: F) -> Self where F: FnOnce(CommandContext<Effect, Event>) -> Fut, Fut: Future<Output = ()> + Send + 'static,
//@sig pub fn new<F, Fut>(Tracked(w): Tracked<&mut World>, create_task: F) -> (r: Self) where F: FnOnce(CommandContext<Effect, Event>) -> Fut,
//@contract
            ensures
                r.wf(), // [C01+C04+C06/Command::new/the-queue-ends-the-context-and-the-abort-flag-are-the-new-commands-own]
                final(w).c_ready == 1, // [C01+C04/Command::new/the-main-task-is-made-ready-exactly-once]
                !(r.tasks@.dom() =~= Set::<usize>::empty()) && (forall|k1: usize, k2: usize| #![auto] r.tasks@.dom().contains(k1) && r.tasks@.dom().contains(k2) ==> k1 == k2), // [C01+C04/Command::new/holds-exactly-the-main-task]
                !final(w).c_aborted, // [C04+C06/Command::new/starts-not-aborted]
                is_quiet(create_task) ==> final(w).c_spawn == 0 && final(w).c_events.len() == 0 && final(w).c_effects.len() == 0, // [C01+C04/Command::new/starts-with-empty-queues]
//@rule X6.channel-role 1 s/let \(effect_sender, effect_receiver\) = crossbeam_channel::unbounded\(\);/let (effect_sender, effect_receiver) = new_channel(Tracked(w), Ghost(Role::CEffects));/
//@rule X6.channel-role 1 s/let \(event_sender, event_receiver\) = crossbeam_channel::unbounded\(\);/let (event_sender, event_receiver) = new_channel(Tracked(w), Ghost(Role::CEvents));/
//@rule X6.channel-role 1 s/let \(ready_sender, ready_receiver\) = crossbeam_channel::unbounded\(\);/let (ready_sender, ready_receiver) = new_channel(Tracked(w), Ghost(Role::CReady));/
//@rule X6.channel-role 1 s/let \(spawn_sender, spawn_receiver\) = crossbeam_channel::unbounded\(\);/let (spawn_sender, spawn_receiver) = new_channel(Tracked(w), Ghost(Role::CSpawn));/
//@rule X6.channel-role 1 s/let \(_, waker_receiver\) = crossbeam_channel::unbounded\(\);/let (_, waker_receiver) = new_channel(Tracked(w), Ghost(Role::Other));/
//@rule X11.module-path 1 s/context::CommandContext \{/CommandContext {/
//@rule X6.flag-role 1 s/let aborted(?:: Arc<AtomicBool>)? = (?:Default::default\(\)|Arc::<AtomicBool>::default\(\)|Arc::default\(\));/let aborted: Arc<AtomicBool> = new_flag(Tracked(w), Ghost(Flag::CommandAborted));/
//@rule X6.flag-role 1 s/finished: Default::default\(\),/finished: new_flag(Tracked(w), Ghost(Flag::Other)),/
//@rule X5.atomic-waker 1 s/waker: Default::default\(\),/waker: new_atomic_waker(),/
//@rule X6.user-code 1 s/create_task\(context\.clone\(\)\)\.boxed\(\)/boxed(call_task_maker(Tracked(w), create_task, context.clone()))/
//@end

//@extract id=Command::done file=crux_core/src/command/mod.rs within="impl<Effect, Event> Command<Effect, Event>" item="fn done" props=C01+C04+C07
//@expect pub fn done() -> Self
//@sig pub fn done(Tracked(w): Tracked<&mut World>) -> (r: Self)
//@contract
            ensures
                r.wf(),
                final(w).c_ready == 1 && final(w).c_spawn == 0 && final(w).c_events.len() == 0 && final(w).c_effects.len() == 0 && !final(w).c_aborted, // [C01+C04+C07/Command::done/a-new-command-with-one-ready-task-and-nothing-queued]
                !(r.tasks@.dom() =~= Set::<usize>::empty()) && (forall|k1: usize, k2: usize| #![auto] r.tasks@.dom().contains(k1) && r.tasks@.dom().contains(k2) ==> k1 == k2),
//@rule X5.ready 1 s/Command::new\(\|_\w*\| futures::future::ready\(\(\)\)\)/Command::new(Tracked(w), quiet(|_ctx: CommandContext<Effect, Event>| -> (res: ReadyFuture) { ready_future() }))/
//@end

//@extract id=Command::all file=crux_core/src/command/mod.rs within="impl<Effect, Event> Command<Effect, Event>" item="fn all" props=C01+C04+C06
//@expect pub fn all<I>(commands: I) -> Self where I: IntoIterator<Item = Self>, Effect: Unpin, Event: Unpin,
//@sig pub fn all(Tracked(w): Tracked<&mut World>, commands: Vec<Self>) -> (r: Self)
//@contract
            ensures
                r.wf(), // [C04+C06/Command::all/the-result-is-a-command-of-its-own-not-one-of-the-given-ones]
                final(w).c_spawn == commands.len(), // [C01+C04+C06/Command::all/every-given-command-is-hosted-by-its-own-task-of-the-new-command]
                final(w).c_ready == 1 && !final(w).c_aborted && final(w).c_events.len() == 0 && final(w).c_effects.len() == 0, // [C04+C06/Command::all/the-new-command-starts-unaborted-with-nothing-queued]
//@bind acc (\w+)\.spawn\(
//@rule X6.world 1 s/Command::done\(\)/Command::done(Tracked(w))/
//@rule X1.for-iterator 1 s/for (\w+) in commands \{/for \1 in it: commands {/
//@rule X5.hosting-closure 1 s/(\w+)\.spawn\(\s*(?:move )?\|(\w+)\| (\w+)\.host\(\2\.effects, \2\.events\)\.map\(\|_\w*\| \(\)\)\s*\);?/\1.spawn(Tracked(w), quiet(|\2: CommandContext<Effect, Event>| -> (res: HostFuture) { host_future(\3, \2) }));/
//@loops 1
//@loop 1
                invariant
                    $acc.wf(),
                    w.c_spawn == it.index@, // [C01+C04+C06/Command::all/loop/one-task-queued-per-command-taken-so-far]
                    w.c_ready == 1 && !w.c_aborted && w.c_events.len() == 0 && w.c_effects.len() == 0,
//@end

//@extract id=Command::and file=crux_core/src/command/mod.rs within="impl<Effect, Event> Command<Effect, Event>" item="fn and" props=C01+C04+C06
//@expect pub fn and(mut self, other: Self) -> Self where Effect: Unpin, Event: Unpin,
//@sig pub fn and(self, Tracked(w): Tracked<&mut World>, other: Self) -> (r: Self)
//@contract
            requires
                self.wf(),
            ensures
                r == self, // [C04+C06/Command::and/the-result-is-this-command-itself]
                *final(w) == (World { c_spawn: old(w).c_spawn + 1, ..*old(w) }), // [C01+C04+C06/Command::and/the-other-command-is-hosted-by-one-new-task-and-nothing-else-changes]
//@rule X5.hosting-closure 1 s/self\.spawn\(\s*(?:move )?\|(\w+)\| (\w+)\.host\(\1\.effects, \1\.events\)\.map\(\|_\w*\| \(\)\)\s*\)/self.spawn(Tracked(w), quiet(|\1: CommandContext<Effect, Event>| -> (res: HostFuture) { host_future(\2, \1) }))/
//@rule X19.mut-self * s/\bself\b/this/
//@entry
            let mut this = self;
//@end

//@extract id=Command::spawn file=crux_core/src/command/mod.rs within="impl<Effect, Event> Command<Effect, Event>" item="fn spawn" props=C01
//@expect pub fn spawn<F, Fut>(&mut self, create_task: F) where F: FnOnce(CommandContext<Effect, Event>) -> Fut, Fut: Future<Output = ()> + Send + 'static,
//@sig pub fn spawn<F, Fut>(&mut self, Tracked(w): Tracked<&mut World>, create_task: F) where F: FnOnce(CommandContext<Effect, Event>) -> Fut,
//@contract
            requires
                old(self).wf(),
            ensures
                *final(self) == *old(self),
                final(w).c_spawn >= old(w).c_spawn + 1, // [C01/Command::spawn/the-new-task-enters-the-commands-spawn-queue]
                is_quiet(create_task) ==> *final(w) == (World { c_spawn: old(w).c_spawn + 1, ..*old(w) }), // [C01/Command::spawn/exactly-one-task-is-queued-and-nothing-else-changes]
//@rule X6.world 1 s/self\.context\.spawn\(/self.context.spawn(Tracked(w), /
//@end

//@extract id=Command::run_task file=crux_core/src/command/executor.rs within="impl<Effect, Event> Command<Effect, Event>" item="fn run_task" props=C01+C06+C07+C13
//@expect pub(crate) fn run_task(&mut self, task_id: TaskId) -> TaskState
//@sig pub fn run_task_inner(&mut self, Tracked(w): Tracked<&mut World>, task_id: TaskId) -> (r: TaskState)
//@contract
            requires
                old(self).wf(),
            ensures
                final(self).wf(),
                final(self).tasks@.dom() =~= old(self).tasks@.dom(), // [C01+C06+C07+C13/command-run_task/adds-and-removes-no-task]
                forall|k: usize| #[trigger] old(self).tasks@.dom().contains(k) ==> val_id(final(self).tasks@[k]) == val_id(old(self).tasks@[k]), // [C01+C06+C13/command-run_task/every-slot-still-holds-the-same-task]
                forall|k: usize| #[trigger] old(self).tasks@.dom().contains(k) && k != task_id.0 ==> final(self).tasks@[k] == old(self).tasks@[k], // [C06/command-run_task/sibling-tasks-are-not-touched]
                final(w).known == old(w).known,
                r is Missing <==> !old(self).tasks@.dom().contains(task_id.0), // [C01/command-run_task/missing-iff-the-slot-is-vacant]
                r is Missing ==> *final(w) == *old(w), // [C01/command-run_task/a-vacant-slot-changes-nothing]
                final(w).finished == old(w).finished,
                r is Completed ==> old(w).aborted_tasks.contains(val_id(old(self).tasks@[task_id.0])) || !final(w).p_pending, // [C07/command-run_task/a-task-is-reported-completed-only-if-aborted-or-its-future-finished]
                r is Cancelled ==> final(w).p_pending && !final(w).p_woken && final(w).p_refs < 2, // [C07+C13/command-run_task/a-task-is-discarded-as-cancelled-only-when-nothing-can-wake-it-again]
                r is Suspended ==> final(w).p_pending && (final(w).p_woken || final(w).p_refs >= 2), // [C07+C13/command-run_task/a-pending-task-that-nothing-can-wake-again-is-not-kept]
                old(self).tasks@.dom().contains(task_id.0) && old(w).aborted_tasks.contains(val_id(old(self).tasks@[task_id.0])) ==> r is Completed && final(w).p_polls == old(w).p_polls && final(w).c_events == old(w).c_events && final(w).c_effects == old(w).c_effects, // [C06/command-run_task/an-aborted-task-is-reported-completed-without-being-polled-and-emits-nothing]
                final(w).p_polls <= old(w).p_polls + 1, // [C06+C07/command-run_task/at-most-the-addressed-task-is-polled-once]
                cmd_outputs_appended(*old(w), *final(w)), // [C01/command-run_task/outputs-only-appended]
                old(w).c_aborted ==> final(w).c_aborted,
                final(w).join_notified == old(w).join_notified,
//@rule X6.poll-waker 1 s/Arc::new\(CommandWaker \{/new_poll_waker(Tracked(w), CommandWaker {/
//@rule X6.poll-waker 1 s/arc_waker\.clone\(\)\.into\(\)/waker_of(Tracked(w), &arc_waker)/
//@rule X6.poll-waker 1 s/task\.future\.as_mut\(\)\.poll\(context\)/poll_task(Tracked(w), task, context)/
//@rule X6.poll-waker 1 s/\bdrop\(waker\);/drop_waker(Tracked(w), waker);/
//@rule X6.poll-waker 1 s/arc_waker\.woken\.load\(Ordering::Acquire\)/poll_waker_woken(Tracked(w), &arc_waker)/
//@rule X6.poll-waker 1 s/Arc::strong_count\(&arc_waker\)/poll_waker_refs(Tracked(w), &arc_waker)/
//@rule X14.enum-eq * s/\bresult == TaskState::(\w+)/matches!(result, TaskState::\1)/
//@end
        /// `run_task` as its callers see it: the extracted body (`run_task_inner`, above) plus the
        /// ghost bookkeeping of its verdict - a task reported Completed or Cancelled is recorded
        /// in `finished`. Template code, verified; erased at run time it is the extracted body.
        pub fn run_task(&mut self, Tracked(w): Tracked<&mut World>, task_id: TaskId) -> (r: TaskState)
            requires
                old(self).wf(),
            ensures
                final(self).wf(),
                final(self).tasks@.dom() =~= old(self).tasks@.dom(),
                forall|k: usize| #[trigger] old(self).tasks@.dom().contains(k) ==> val_id(final(self).tasks@[k]) == val_id(old(self).tasks@[k]),
                forall|k: usize| #[trigger] old(self).tasks@.dom().contains(k) && k != task_id.0 ==> final(self).tasks@[k] == old(self).tasks@[k],
                final(w).known == old(w).known,
                r is Missing <==> !old(self).tasks@.dom().contains(task_id.0),
                r is Missing ==> *final(w) == *old(w),
                (r is Completed || r is Cancelled) ==> final(w).finished == old(w).finished.insert(val_id(old(self).tasks@[task_id.0])),
                (r is Suspended || r is Missing) ==> final(w).finished == old(w).finished,
                r is Completed ==> old(w).aborted_tasks.contains(val_id(old(self).tasks@[task_id.0])) || !final(w).p_pending,
                r is Cancelled ==> final(w).p_pending && !final(w).p_woken && final(w).p_refs < 2,
                r is Suspended ==> final(w).p_pending && (final(w).p_woken || final(w).p_refs >= 2),
                old(self).tasks@.dom().contains(task_id.0) && old(w).aborted_tasks.contains(val_id(old(self).tasks@[task_id.0])) ==> r is Completed && final(w).p_polls == old(w).p_polls && final(w).c_events == old(w).c_events && final(w).c_effects == old(w).c_effects,
                final(w).p_polls <= old(w).p_polls + 1,
                cmd_outputs_appended(*old(w), *final(w)),
                old(w).c_aborted ==> final(w).c_aborted,
                final(w).join_notified == old(w).join_notified,
        {
            let ghost id = val_id(self.tasks@[task_id.0]);
            let r = self.run_task_inner(Tracked(w), task_id);
            proof {
                if r is Completed || r is Cancelled {
                    w.finished = w.finished.insert(id);
                }
            }
            r
        }


//@extract id=Command::abort_handle file=crux_core/src/command/mod.rs within="impl<Effect, Event> Command<Effect, Event>" item="fn abort_handle" props=C06
//@expect pub fn abort_handle(&self) -> AbortHandle
//@sig pub fn abort_handle(&self) -> (r: AbortHandle)
//@contract
            requires
                self.wf(),
            ensures
                r.aborted.flag() is CommandAborted, // [C06/abort_handle/the-handle-shares-the-commands-own-abort-flag]
//@end

//@extract id=Command::was_aborted file=crux_core/src/command/executor.rs within="impl<Effect, Event> Command<Effect, Event>" item="fn was_aborted" props=C01+C06+C13
//@expect pub fn was_aborted(&self) -> bool
//@sig pub fn was_aborted(&self, Tracked(w): Tracked<&mut World>) -> (r: bool)
//@contract
            requires
                self.wf(),
            ensures
                r == old(w).c_aborted, // [C01+C13/was_aborted/reads-the-commands-abort-flag]
                *final(w) == *old(w),
//@rule X6.world * s/\.load\(/.load(Tracked(w), /
//@end

//@extract id=Command::spawn_new_tasks file=crux_core/src/command/executor.rs within="impl<Effect, Event> Command<Effect, Event>" item="fn spawn_new_tasks" props=C01+C07+C13
//@expect pub(crate) fn spawn_new_tasks(&mut self)
//@sig pub fn spawn_new_tasks(&mut self, Tracked(w): Tracked<&mut World>)
//@attr #[verifier::exec_allows_no_decreases_clause]
//@contract
            requires
                old(self).wf(),
                no_finished_task_held(*old(self), *old(w)),
            ensures
                final(self).wf(),
                final(w).c_spawn == 0, // [C01/spawn_new_tasks/spawn-queue-drained]
                final(w).c_ready == old(w).c_ready + old(w).c_spawn, // [C01/spawn_new_tasks/every-new-task-is-made-ready-exactly-once]
                *final(w) == (World { c_spawn: 0, c_ready: final(w).c_ready, known: final(w).known, ..*old(w) }), // [C01/spawn_new_tasks/nothing-else-touched]
                old(w).c_spawn == 0 ==> final(w).known == old(w).known,
                tasks_kept(old(self).tasks@, final(self).tasks@), // [C01+C13/spawn_new_tasks/existing-tasks-untouched]
                old(w).c_spawn == 0 ==> final(self).tasks@ == old(self).tasks@,
                no_finished_task_held(*final(self), *final(w)), // [C13/spawn_new_tasks/no-finished-task-held]
//@rule X6.world * s/\.try_recv\(\)/.try_recv(Tracked(w))/
//@rule X6.world * s/\.send\(/.send(Tracked(w), /
//@loops 1
//@loop 1
                invariant
                    self.wf(),
                    w.c_ready + w.c_spawn == old(w).c_ready + old(w).c_spawn,
                    w.c_spawn <= old(w).c_spawn,
                    *w == (World { c_spawn: w.c_spawn, c_ready: w.c_ready, known: w.known, ..*old(w) }),
                    old(w).c_spawn == w.c_spawn ==> w.known == old(w).known,
                    tasks_kept(old(self).tasks@, self.tasks@),
                    old(w).c_spawn == w.c_spawn ==> self.tasks@ == old(self).tasks@,
                    no_finished_task_held(*self, *w),
                ensures
                    w.c_spawn == 0,
//@end

//@extract id=Command::run_until_settled file=crux_core/src/command/executor.rs within="impl<Effect, Event> Command<Effect, Event>" item="fn run_until_settled" props=C01+C05+C06+C07+C13
//@expect pub(crate) fn run_until_settled(&mut self)
//@sig pub fn run_until_settled(&mut self, Tracked(w): Tracked<&mut World>)
//@attr #[verifier::exec_allows_no_decreases_clause]
//@contract
            requires
                old(self).wf(),
                no_finished_task_held(*old(self), *old(w)),
                joiners_notified(*old(w)),
            ensures
                final(self).wf(),
                no_finished_task_held(*final(self), *final(w)), // [C13/run_until_settled/a-finished-or-cancelled-task-is-removed-and-dropped]
                joiners_notified(*final(w)), // [C01+C06+C07+C13/run_until_settled/whoever-awaits-a-finished-or-cancelled-task-has-been-woken]
                old(w).c_aborted ==> final(self).tasks@ == Map::<usize, Task>::empty() && *final(w) == *old(w), // [C06+C13/run_until_settled/an-aborted-command-drops-all-its-tasks-polls-none-and-emits-nothing-more]
                !old(w).c_aborted ==> discarded_only_finished(old(self).tasks@, final(self).tasks@, *final(w)), // [C07/run_until_settled/only-finished-or-cancelled-tasks-are-discarded]
                !old(w).c_aborted ==> final(w).c_spawn == 0 && final(w).c_ready == 0, // [C01+C05/run_until_settled/no-runnable-work-left-behind]
                cmd_outputs_appended(*old(w), *final(w)), // [C01/run_until_settled/outputs-only-appended]
                old(w).c_aborted ==> final(w).c_aborted,
                !old(w).c_aborted && old(w).c_spawn == 0 && old(w).c_ready == 0 ==> *final(w) == *old(w) && final(self).tasks@ == old(self).tasks@, // [C01/run_until_settled/idempotent-once-settled]
//@rule X6.world * s/self\.was_aborted\(\)/self.was_aborted(Tracked(w))/
//@rule X6.world * s/self\.spawn_new_tasks\(\)/self.spawn_new_tasks(Tracked(w))/
//@rule X6.world * s/\.try_recv\(\)/.try_recv(Tracked(w))/
//@rule X6.world * s/self\.run_task\(/self.run_task(Tracked(w), /
//@rule X6.world * s/\.wake_join_handles\(\)/.wake_join_handles(Tracked(w))/
//@rule X6.world * s/\.store\(/.store(Tracked(w), /
//@loops 2
//@loop 1
                invariant
                    self.wf(),
                    !old(w).c_aborted,
                    no_finished_task_held(*self, *w), // [C13/run_until_settled/loop/no-finished-task-held-between-passes]
                    joiners_notified(*w),
                    discarded_only_finished(old(self).tasks@, self.tasks@, *w),
                    old(w).finished.subset_of(w.finished),
                    cmd_outputs_appended(*old(w), *w),
                    old(w).c_spawn == 0 && old(w).c_ready == 0 ==> *w == *old(w) && self.tasks@ == old(self).tasks@,
                ensures
                    w.c_spawn == 0 && w.c_ready == 0,
                    self.wf(), no_finished_task_held(*self, *w), cmd_outputs_appended(*old(w), *w), joiners_notified(*w),
                    discarded_only_finished(old(self).tasks@, self.tasks@, *w),
                    old(w).c_spawn == 0 && old(w).c_ready == 0 ==> *w == *old(w) && self.tasks@ == old(self).tasks@,
//@loop 2
                    invariant
                        self.wf(),
                        no_finished_task_held(*self, *w), // [C13/run_until_settled/inner-loop/a-task-reported-finished-or-cancelled-is-removed-before-the-next-one-runs]
                        joiners_notified(*w), // [C01+C06+C07+C13/run_until_settled/inner-loop/join-handles-of-a-finished-or-cancelled-task-are-woken-before-the-next-task-runs]
                        discarded_only_finished(old(self).tasks@, self.tasks@, *w), // [C07/run_until_settled/inner-loop/a-task-is-removed-only-after-being-reported-finished-or-cancelled]
                        old(w).finished.subset_of(w.finished),
                        cmd_outputs_appended(*old(w), *w),
//@end

//@extract id=Command::poll_next file=crux_core/src/command/stream.rs within="impl<Effect, Event> Stream for Command<Effect, Event>" item="fn poll_next" props=C01+C06+C07+C13
//@expect fn poll_next(mut self: Pin<&mut Self>, cx: &mut Context<'_>) -> Poll<Option<Self::Item>>
//@sig pub fn poll_next(&mut self, Tracked(w): Tracked<&mut World>, cx: &mut Context) -> (r: Poll<Option<CommandOutput<Effect, Event>>>)
//@contract
            requires
                old(self).wf(),
                no_finished_task_held(*old(self), *old(w)),
                joiners_notified(*old(w)),
            ensures
                final(self).wf(),
                no_finished_task_held(*final(self), *final(w)),
                joiners_notified(*final(w)),
                // queued events first, exactly one item per poll, nothing lost:
                (r matches Poll::Ready(Some(CommandOutput::Event(e))) ==> old(w).c_events.is_prefix_of(seq![val_id(e)] + final(w).c_events) && old(w).c_effects.is_prefix_of(final(w).c_effects)), // [C01/poll_next/event-yielded-is-the-head-exactly-one-item-removed]
                (r matches Poll::Ready(Some(CommandOutput::Effect(f))) ==> final(w).c_events.len() == 0 && old(w).c_events.len() == 0 && old(w).c_effects.is_prefix_of(seq![val_id(f)] + final(w).c_effects)), // [C01/poll_next/effect-yielded-only-when-no-event-waits-head-exactly-one-item-removed]
                (r matches Poll::Ready(None) ==> final(w).c_events.len() == 0 && final(w).c_effects.len() == 0 && final(self).tasks@.dom() =~= Set::<usize>::empty()), // [C01+C07/poll_next/end-of-stream-only-when-nothing-is-pending-and-no-task-is-left]
                (r is Pending ==> final(w).c_events.len() == 0 && final(w).c_effects.len() == 0 && !(final(self).tasks@.dom() =~= Set::<usize>::empty())), // [C01+C07/poll_next/pending-only-when-both-queues-are-empty-and-a-task-remains]
                (r is Pending && !old(w).c_aborted ==> final(w).c_spawn == 0 && final(w).c_ready == 0), // [C01/poll_next/pending-only-when-settled]
                (r matches Poll::Ready(None) && !old(w).c_aborted ==> final(w).c_spawn == 0 && final(w).c_ready == 0), // [C01+C07/poll_next/end-of-stream-only-when-no-task-waits-to-be-started-or-run]
                (r is Pending ==> !final(w).c_aborted), // [C01+C06+C13/poll_next/an-aborted-command-never-stays-pending-in-its-host]
                (final(w).c_aborted && !(r matches Poll::Ready(Some(_))) ==> final(self).tasks@.dom() =~= Set::<usize>::empty()), // [C13/poll_next/an-aborted-command-with-no-output-left-holds-no-task]
//@rule X12.pin-erasure 1 s/self\.deref_mut\(\)\.run_until_settled\(\)/self.run_until_settled(Tracked(w))/
//@rule X6.world * s/\.try_recv\(\)/.try_recv(Tracked(w))/
//@rule X6.world * s/self\.is_done\(\)/self.is_done(Tracked(w))/
//@end

//@extract id=Command::is_done file=crux_core/src/command/mod.rs within="impl<Effect, Event> Command<Effect, Event>" item="fn is_done" props=C01+C06+C07+C13
//@expect pub fn is_done(&mut self) -> bool
//@sig pub fn is_done(&mut self, Tracked(w): Tracked<&mut World>) -> (r: bool)
//@contract
            requires
                old(self).wf(),
                no_finished_task_held(*old(self), *old(w)),
                joiners_notified(*old(w)),
            ensures
                final(self).wf(),
                no_finished_task_held(*final(self), *final(w)),
                joiners_notified(*final(w)),
                r <==> (final(w).c_effects.len() == 0 && final(w).c_events.len() == 0 && final(self).tasks@.dom() =~= Set::<usize>::empty()), // [C01+C07+C13/is_done/done-iff-no-output-pending-and-no-task-left]
                old(w).c_aborted ==> (r <==> (final(w).c_effects.len() == 0 && final(w).c_events.len() == 0)), // [C06/is_done/an-aborted-command-is-done-as-soon-as-its-already-emitted-outputs-are-taken]
                !old(w).c_aborted ==> final(w).c_spawn == 0 && final(w).c_ready == 0, // [C01/is_done/settles-first]
                cmd_outputs_appended(*old(w), *final(w)),
                !old(w).c_aborted && old(w).c_spawn == 0 && old(w).c_ready == 0 ==> *final(w) == *old(w) && final(self).tasks@ == old(self).tasks@,
                old(w).c_aborted ==> *final(w) == *old(w) && final(self).tasks@ == Map::<usize, Task>::empty(),
//@rule X6.world * s/self\.run_until_settled\(\)/self.run_until_settled(Tracked(w))/
//@end
    }
}

} // verus!

fn main() {}
