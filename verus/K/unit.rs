// Unit K (C17), Verus half: the result-mapping functions of crux_kv, verbatim, for payloads of
// ANY length (Kani proves the same on the real types with real derive code, payload length <= 2).
use vstd::prelude::*;
use vstd::std_specs::convert::FromSpecImpl;

verus! {

// ------------------------------------------------------------------ real types (extracted, rule X2)
//@extract id=kv.Value file=crux_kv/src/value.rs item="enum Value"
//@rule X2.inline-serde-attr * s/#\[serde\([^\]]*\)\]\s*//
//@end
//@extract id=kv.KeyValueError file=crux_kv/src/error.rs item="enum KeyValueError"
//@end
//@extract id=kv.KeyValueResult file=crux_kv/src/lib.rs item="enum KeyValueResult"
//@end
//@extract id=kv.KeyValueResponse file=crux_kv/src/lib.rs item="enum KeyValueResponse"
//@end

// derive(Clone) on KeyValueError is dropped with the other attributes (X2); Verus gives derived
// Clone of an enum with String fields no specification, so its meaning is ASSUMED here: a
// structural copy. (Kani runs the real derived clone, k_errors_pass_through_unchanged.)
impl Clone for KeyValueError {
    #[verifier::external_body]
    fn clone(&self) -> (r: Self)
        ensures r == *self,
    { unimplemented!() }
}

// ------------------------------------------------------------------ Value <-> Option<Vec<u8>>
// The reference meaning, from the property: absent stays absent and distinct from empty; bytes
// are the same bytes. vstd attaches `ensures r == from_spec(v)` to every `From::from` whose
// type declares obeys_from_spec(), so these three spec functions ARE the contracts of the three
// real `from` bodies below, and `.into()` at the call sites is known only through them.
pub open spec fn option_of(v: Value) -> Option<Vec<u8>> {
    match v { Value::None => None, Value::Bytes(b) => Some(b) }
}
impl FromSpecImpl<Value> for Option<Vec<u8>> {
    open spec fn obeys_from_spec() -> bool { true }
    open spec fn from_spec(v: Value) -> Self { option_of(v) }
}
impl FromSpecImpl<Vec<u8>> for Value {
    open spec fn obeys_from_spec() -> bool { true }
    open spec fn from_spec(v: Vec<u8>) -> Self { Value::Bytes(v) }
}
pub open spec fn value_of(v: Option<Vec<u8>>) -> Value {
    match v { None => Value::None, Some(b) => Value::Bytes(b) }
}
impl FromSpecImpl<Option<Vec<u8>>> for Value {
    open spec fn obeys_from_spec() -> bool { true }
    open spec fn from_spec(v: Option<Vec<u8>>) -> Self { value_of(v) }
}

impl From<Vec<u8>> for Value {
//@extract id=Value::from(Vec) file=crux_kv/src/value.rs within="impl From<Vec<u8>> for Value" item="fn from" props=C17
//@expect fn from(bytes: Vec<u8>) -> Self
//@end
}

impl From<Value> for Option<Vec<u8>> {
//@extract id=Option::from(Value) file=crux_kv/src/value.rs within="impl From<Value> for Option<Vec<u8>>" item="fn from" props=C17
//@expect fn from(value: Value) -> Option<Vec<u8>>
//@end
}

impl From<Option<Vec<u8>>> for Value {
//@extract id=Value::from(Option) file=crux_kv/src/value.rs within="impl From<Option<Vec<u8>>> for Value" item="fn from" props=C17
//@expect fn from(val: Option<Vec<u8>>) -> Self
//@end
}

proof fn lemma_value_option_roundtrip(v: Value, o: Option<Vec<u8>>)
    ensures
        value_of(option_of(v)) == v, // [C17/lemma/Value->Option->Value/identity]
        option_of(value_of(o)) == o, // [C17/lemma/Option->Value->Option/identity]
        option_of(v) is None <==> v is None, // [C17/lemma/absent-distinct-from-empty]
{
}

// ------------------------------------------------------------------ unwrap_*
impl KeyValueResult {
//@extract id=unwrap_get file=crux_kv/src/lib.rs within="impl KeyValueResult" item="fn unwrap_get" props=C17
//@expect fn unwrap_get(self) -> Result<Option<Vec<u8>>, KeyValueError>
//@sig fn unwrap_get(self) -> (r: Result<Option<Vec<u8>>, KeyValueError>)
//@contract
        requires
            self is Err || self->response is Get, // a response of another kind panics (Kani: k_wrong_kind_reject)
        ensures
            self is Ok ==> r == Ok::<Option<Vec<u8>>, KeyValueError>(option_of(self->response->Get_value)), // [C17/verus/unwrap_get/value-unchanged]
            self is Err ==> r == Err::<Option<Vec<u8>>, KeyValueError>(self->error), // [C17/verus/unwrap_get/error-passed-through]
//@end

//@extract id=unwrap_set file=crux_kv/src/lib.rs within="impl KeyValueResult" item="fn unwrap_set" props=C17
//@expect fn unwrap_set(self) -> Result<Option<Vec<u8>>, KeyValueError>
//@sig fn unwrap_set(self) -> (r: Result<Option<Vec<u8>>, KeyValueError>)
//@contract
        requires
            self is Err || self->response is Set,
        ensures
            self is Ok ==> r == Ok::<Option<Vec<u8>>, KeyValueError>(option_of(self->response->Set_previous)), // [C17/verus/unwrap_set/previous-unchanged]
            self is Err ==> r == Err::<Option<Vec<u8>>, KeyValueError>(self->error), // [C17/verus/unwrap_set/error-passed-through]
//@end

//@extract id=unwrap_delete file=crux_kv/src/lib.rs within="impl KeyValueResult" item="fn unwrap_delete" props=C17
//@expect fn unwrap_delete(self) -> Result<Option<Vec<u8>>, KeyValueError>
//@sig fn unwrap_delete(self) -> (r: Result<Option<Vec<u8>>, KeyValueError>)
//@contract
        requires
            self is Err || self->response is Delete,
        ensures
            self is Ok ==> r == Ok::<Option<Vec<u8>>, KeyValueError>(option_of(self->response->Delete_previous)), // [C17/verus/unwrap_delete/previous-unchanged]
            self is Err ==> r == Err::<Option<Vec<u8>>, KeyValueError>(self->error), // [C17/verus/unwrap_delete/error-passed-through]
//@end

//@extract id=unwrap_exists file=crux_kv/src/lib.rs within="impl KeyValueResult" item="fn unwrap_exists" props=C17
//@expect fn unwrap_exists(self) -> Result<bool, KeyValueError>
//@sig fn unwrap_exists(self) -> (r: Result<bool, KeyValueError>)
//@contract
        requires
            self is Err || self->response is Exists,
        ensures
            self is Ok ==> r == Ok::<bool, KeyValueError>(self->response->Exists_is_present), // [C17/verus/unwrap_exists/flag-unchanged]
            self is Err ==> r == Err::<bool, KeyValueError>(self->error), // [C17/verus/unwrap_exists/error-passed-through]
//@end

//@extract id=unwrap_list_keys file=crux_kv/src/lib.rs within="impl KeyValueResult" item="fn unwrap_list_keys" props=C17
//@expect fn unwrap_list_keys(self) -> Result<(Vec<String>, u64), KeyValueError>
//@sig fn unwrap_list_keys(self) -> (r: Result<(Vec<String>, u64), KeyValueError>)
//@contract
        requires
            self is Err || self->response is ListKeys,
        ensures
            self is Ok ==> r == Ok::<(Vec<String>, u64), KeyValueError>((self->response->ListKeys_keys, self->response->ListKeys_next_cursor)), // [C17/verus/unwrap_list_keys/page-and-cursor-unchanged]
            self is Err ==> r == Err::<(Vec<String>, u64), KeyValueError>(self->error), // [C17/verus/unwrap_list_keys/error-passed-through]
//@end
}

} // verus!

fn main() {}
