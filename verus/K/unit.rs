// Unit K (C17), Verus half: the result-mapping functions of crux_kv, verbatim, for payloads of
// ANY length (Kani proves the same on the real types with real derive code, payload length <= 2).
use vstd::prelude::*;
use vstd::std_specs::convert::FromSpecImpl;
use std::marker::PhantomData;

verus! {

// ------------------------------------------------------------------ real types (extracted, rule X2)
//@extract id=kv.Value file=crux_kv/src/value.rs item="enum Value"
//@rule X2.inline-serde-attr * s/#\[serde\([^\]]*\)\]\s*//
//@end
//@extract id=kv.KeyValueError file=crux_kv/src/error.rs item="enum KeyValueError"
//@end
//@extract id=kv.KeyValueResult file=crux_kv/src/lib.rs item="enum KeyValueResult"
//@end
//@extract id=kv.KeyValueResponse file=crux_kv/src/lib.rs item="enum KeyValueResponse"
//@end

// derive(Clone) on KeyValueError is dropped with the other attributes (X2); Verus gives derived
// Clone of an enum with String fields no specification, so its meaning is ASSUMED here: a
// structural copy. (Kani runs the real derived clone, k_errors_pass_through_unchanged.)
impl Clone for KeyValueError {
    #[verifier::external_body]
    fn clone(&self) -> (r: Self)
        ensures r == *self,
    { unimplemented!() }
}

// ------------------------------------------------------------------ Value <-> Option<Vec<u8>>
// The reference meaning, from the property: absent stays absent and distinct from empty; bytes
// are the same bytes. vstd attaches `ensures r == from_spec(v)` to every `From::from` whose
// type declares obeys_from_spec(), so these three spec functions ARE the contracts of the three
// real `from` bodies below, and `.into()` at the call sites is known only through them.
pub open spec fn option_of(v: Value) -> Option<Vec<u8>> {
    match v { Value::None => None, Value::Bytes(b) => Some(b) }
}
impl FromSpecImpl<Value> for Option<Vec<u8>> {
    open spec fn obeys_from_spec() -> bool { true }
    open spec fn from_spec(v: Value) -> Self { option_of(v) }
}
impl FromSpecImpl<Vec<u8>> for Value {
    open spec fn obeys_from_spec() -> bool { true }
    open spec fn from_spec(v: Vec<u8>) -> Self { Value::Bytes(v) }
}
pub open spec fn value_of(v: Option<Vec<u8>>) -> Value {
    match v { None => Value::None, Some(b) => Value::Bytes(b) }
}
impl FromSpecImpl<Option<Vec<u8>>> for Value {
    open spec fn obeys_from_spec() -> bool { true }
    open spec fn from_spec(v: Option<Vec<u8>>) -> Self { value_of(v) }
}

impl From<Vec<u8>> for Value {
//@extract id=Value::from(Vec) file=crux_kv/src/value.rs within="impl From<Vec<u8>> for Value" item="fn from" props=C17
//@expect fn from(bytes: Vec<u8>) -> Self
//@expect fn from(bytes: Vec<u8>) -> Value
//@end
}

impl From<Value> for Option<Vec<u8>> {
//@extract id=Option::from(Value) file=crux_kv/src/value.rs within="impl From<Value> for Option<Vec<u8>>" item="fn from" props=C17
//@expect fn from(value: Value) -> Option<Vec<u8>>
//@expect fn from(value: Value) -> Self
//@end
}

impl From<Option<Vec<u8>>> for Value {
//@extract id=Value::from(Option) file=crux_kv/src/value.rs within="impl From<Option<Vec<u8>>> for Value" item="fn from" props=C17
//@expect fn from(val: Option<Vec<u8>>) -> Self
//@expect fn from(val: Option<Vec<u8>>) -> Value
//@end
}

proof fn lemma_value_option_roundtrip(v: Value, o: Option<Vec<u8>>)
    ensures
        value_of(option_of(v)) == v, // [C17/lemma/Value->Option->Value/identity]
        option_of(value_of(o)) == o, // [C17/lemma/Option->Value->Option/identity]
        option_of(v) is None <==> v is None, // [C17/lemma/absent-distinct-from-empty]
{
}

// ------------------------------------------------------------------ unwrap_*
impl KeyValueResult {
//@extract id=unwrap_get file=crux_kv/src/lib.rs within="impl KeyValueResult" item="fn unwrap_get" props=C17
//@expect fn unwrap_get(self) -> Result<Option<Vec<u8>>, KeyValueError>
//@sig fn unwrap_get(self) -> (r: Result<Option<Vec<u8>>, KeyValueError>)
//@contract
        requires
            self is Err || self->response is Get, // a response of another kind panics (Kani: k_wrong_kind_reject)
        ensures
            self is Ok ==> r == Ok::<Option<Vec<u8>>, KeyValueError>(option_of(self->response->Get_value)), // [C17/verus/unwrap_get/value-unchanged]
            self is Err ==> r == Err::<Option<Vec<u8>>, KeyValueError>(self->error), // [C17/verus/unwrap_get/error-passed-through]
//@end

//@extract id=unwrap_set file=crux_kv/src/lib.rs within="impl KeyValueResult" item="fn unwrap_set" props=C17
//@expect fn unwrap_set(self) -> Result<Option<Vec<u8>>, KeyValueError>
//@sig fn unwrap_set(self) -> (r: Result<Option<Vec<u8>>, KeyValueError>)
//@contract
        requires
            self is Err || self->response is Set,
        ensures
            self is Ok ==> r == Ok::<Option<Vec<u8>>, KeyValueError>(option_of(self->response->Set_previous)), // [C17/verus/unwrap_set/previous-unchanged]
            self is Err ==> r == Err::<Option<Vec<u8>>, KeyValueError>(self->error), // [C17/verus/unwrap_set/error-passed-through]
//@end

//@extract id=unwrap_delete file=crux_kv/src/lib.rs within="impl KeyValueResult" item="fn unwrap_delete" props=C17
//@expect fn unwrap_delete(self) -> Result<Option<Vec<u8>>, KeyValueError>
//@sig fn unwrap_delete(self) -> (r: Result<Option<Vec<u8>>, KeyValueError>)
//@contract
        requires
            self is Err || self->response is Delete,
        ensures
            self is Ok ==> r == Ok::<Option<Vec<u8>>, KeyValueError>(option_of(self->response->Delete_previous)), // [C17/verus/unwrap_delete/previous-unchanged]
            self is Err ==> r == Err::<Option<Vec<u8>>, KeyValueError>(self->error), // [C17/verus/unwrap_delete/error-passed-through]
//@end

//@extract id=unwrap_exists file=crux_kv/src/lib.rs within="impl KeyValueResult" item="fn unwrap_exists" props=C17
//@expect fn unwrap_exists(self) -> Result<bool, KeyValueError>
//@sig fn unwrap_exists(self) -> (r: Result<bool, KeyValueError>)
//@contract
        requires
            self is Err || self->response is Exists,
        ensures
            self is Ok ==> r == Ok::<bool, KeyValueError>(self->response->Exists_is_present), // [C17/verus/unwrap_exists/flag-unchanged]
            self is Err ==> r == Err::<bool, KeyValueError>(self->error), // [C17/verus/unwrap_exists/error-passed-through]
//@end

//@extract id=unwrap_list_keys file=crux_kv/src/lib.rs within="impl KeyValueResult" item="fn unwrap_list_keys" props=C17
//@expect fn unwrap_list_keys(self) -> Result<(Vec<String>, u64), KeyValueError>
//@sig fn unwrap_list_keys(self) -> (r: Result<(Vec<String>, u64), KeyValueError>)
//@contract
        requires
            self is Err || self->response is ListKeys,
        ensures
            self is Ok ==> r == Ok::<(Vec<String>, u64), KeyValueError>((self->response->ListKeys_keys, self->response->ListKeys_next_cursor)), // [C17/verus/unwrap_list_keys/page-and-cursor-unchanged]
            self is Err ==> r == Err::<(Vec<String>, u64), KeyValueError>(self->error), // [C17/verus/unwrap_list_keys/error-passed-through]
//@end
}

// ------------------------------------------------------------------ the command API: emission half (command.rs)
// Each call builds ONE request for the operation of the corresponding kind carrying the given
// key / value / prefix / cursor unchanged, and maps the shell's answer with the matching
// unwrap_* (proved above). What a RequestBuilder does with its operation and mapping function is
// crux_core's (Command::request_from_shell, RequestBuilder::map: async - opaque here).
//@extract id=kv.KeyValueOperation file=crux_kv/src/lib.rs item="enum KeyValueOperation"
//@rule X2.inline-serde-attr * s/#\[serde\([^\]]*\)\]\s*//
//@end

pub mod crux_core_m {
    use super::*;
    /// crux_core::command::RequestBuilder<Effect, Event, impl Future<Output = T>>, by its output type
    #[verifier::external_body]
    #[verifier::accept_recursive_types(Effect)]
    #[verifier::accept_recursive_types(Event)]
    #[verifier::accept_recursive_types(T)]
    pub struct RequestBuilder<Effect, Event, T> { _p: core::marker::PhantomData<(Effect, Event, T)> }
    /// the one operation the built command will request from the shell
    pub uninterp spec fn builder_op<Effect, Event, T>(b: RequestBuilder<Effect, Event, T>) -> KeyValueOperation;
    /// the built command hands the app `u` when the shell answers `t`
    pub uninterp spec fn builder_maps<Effect, Event, U>(b: RequestBuilder<Effect, Event, U>, t: KeyValueResult, u: U) -> bool;
    /// the builder came straight from request_from_shell: the answer is handed over as it is
    pub uninterp spec fn builder_fresh<Effect, Event>(b: RequestBuilder<Effect, Event, KeyValueResult>) -> bool;

    pub struct Command;
    impl Command {
        // ASSUMED (crux_core/src/command/mod.rs): one request for exactly this operation
        #[verifier::external_body]
        pub fn request_from_shell<Effect, Event>(operation: KeyValueOperation) -> (r: RequestBuilder<Effect, Event, KeyValueResult>)
            ensures builder_op(r) == operation, builder_fresh(r),
        { unimplemented!() }
    }
    impl<Effect, Event> RequestBuilder<Effect, Event, KeyValueResult> {
        // ASSUMED (crux_core/src/command/builder.rs): same request, answer passed through f
        #[verifier::external_body]
        pub fn map<U, F: FnOnce(KeyValueResult) -> U>(self, f: F) -> (r: RequestBuilder<Effect, Event, U>)
            requires builder_fresh(self),
            ensures
                builder_op(r) == builder_op(self),
                forall|t: KeyValueResult, u: U| #![auto] builder_maps(r, t, u) <==> call_ensures(f, (t,), u),
        { unimplemented!() }
    }
}
use crux_core_m::{builder_maps, builder_op, Command, RequestBuilder};

/// what the caller's key converts to (`impl Into<String>` is the caller's conversion: uninterpreted)
pub uninterp spec fn string_of<K>(k: K) -> String;
/// `key.into()` with its result named (rule X16)
#[verifier::external_body]
pub fn into_string<K: Into<String>>(k: K) -> (r: String)
    ensures r == string_of(k),
{ unimplemented!() }

//@extract id=cmd.KeyValue file=crux_kv/src/command.rs item="struct KeyValue"
//@end

impl<Effect, Event> KeyValue<Effect, Event> {
//@extract id=command::get file=crux_kv/src/command.rs within="impl<Effect, Event> KeyValue<Effect, Event>" item="fn get" props=C17
//@expect pub fn get( key: impl Into<String>, ) -> RequestBuilder<Effect, Event, impl Future<Output = DataResult>>
//@sig fn get<K: Into<String>>(key: K) -> (r: RequestBuilder<Effect, Event, Result<Option<Vec<u8>>, KeyValueError>>)
//@contract
        ensures
            builder_op(r) == (KeyValueOperation::Get { key: string_of(key) }), // [C17/command-get/one-Get-operation-carrying-the-given-key]
            forall|t: KeyValueResult, u: Result<Option<Vec<u8>>, KeyValueError>| #![auto] builder_maps(r, t, u) ==> call_ensures(KeyValueResult::unwrap_get, (t,), u), // [C17/command-get/the-answer-is-mapped-by-unwrap_get]
//@rule X16.into 1 s/key\.into\(\)/into_string(key)/
//@rule X1.closure-contract 1 closure#\.map\(#|$x: KeyValueResult| -> (res: Result<Option<Vec<u8>>, KeyValueError>) requires call_requires(KeyValueResult::unwrap_get, ($x,)) ensures call_ensures(KeyValueResult::unwrap_get, ($x,), res) // [C17/command-get/the-closure-given-to-map-answers-as-unwrap_get-does]\n#
//@end

//@extract id=command::set file=crux_kv/src/command.rs within="impl<Effect, Event> KeyValue<Effect, Event>" item="fn set" props=C17
//@expect pub fn set( key: impl Into<String>, value: Vec<u8>, ) -> RequestBuilder<Effect, Event, impl Future<Output = DataResult>>
//@sig fn set<K: Into<String>>(key: K, value: Vec<u8>) -> (r: RequestBuilder<Effect, Event, Result<Option<Vec<u8>>, KeyValueError>>)
//@contract
        ensures
            builder_op(r) == (KeyValueOperation::Set { key: string_of(key), value: value }), // [C17/command-set/one-Set-operation-carrying-the-given-key-and-the-same-value-bytes]
            forall|t: KeyValueResult, u: Result<Option<Vec<u8>>, KeyValueError>| #![auto] builder_maps(r, t, u) ==> call_ensures(KeyValueResult::unwrap_set, (t,), u), // [C17/command-set/the-answer-is-mapped-by-unwrap_set]
//@rule X16.into 1 s/key\.into\(\)/into_string(key)/
//@rule X1.closure-contract 1 closure#\.map\(#|$x: KeyValueResult| -> (res: Result<Option<Vec<u8>>, KeyValueError>) requires call_requires(KeyValueResult::unwrap_set, ($x,)) ensures call_ensures(KeyValueResult::unwrap_set, ($x,), res) // [C17/command-set/the-closure-given-to-map-answers-as-unwrap_set-does]\n#
//@end

//@extract id=command::delete file=crux_kv/src/command.rs within="impl<Effect, Event> KeyValue<Effect, Event>" item="fn delete" props=C17
//@expect pub fn delete( key: impl Into<String>, ) -> RequestBuilder<Effect, Event, impl Future<Output = DataResult>>
//@sig fn delete<K: Into<String>>(key: K) -> (r: RequestBuilder<Effect, Event, Result<Option<Vec<u8>>, KeyValueError>>)
//@contract
        ensures
            builder_op(r) == (KeyValueOperation::Delete { key: string_of(key) }), // [C17/command-delete/one-Delete-operation-carrying-the-given-key]
            forall|t: KeyValueResult, u: Result<Option<Vec<u8>>, KeyValueError>| #![auto] builder_maps(r, t, u) ==> call_ensures(KeyValueResult::unwrap_delete, (t,), u), // [C17/command-delete/the-answer-is-mapped-by-unwrap_delete]
//@rule X16.into 1 s/key\.into\(\)/into_string(key)/
//@rule X1.closure-contract 1 closure#\.map\(#|$x: KeyValueResult| -> (res: Result<Option<Vec<u8>>, KeyValueError>) requires call_requires(KeyValueResult::unwrap_delete, ($x,)) ensures call_ensures(KeyValueResult::unwrap_delete, ($x,), res) // [C17/command-delete/the-closure-given-to-map-answers-as-unwrap_delete-does]\n#
//@end

//@extract id=command::exists file=crux_kv/src/command.rs within="impl<Effect, Event> KeyValue<Effect, Event>" item="fn exists" props=C17
//@expect pub fn exists( key: impl Into<String>, ) -> RequestBuilder<Effect, Event, impl Future<Output = StatusResult>>
//@sig fn exists<K: Into<String>>(key: K) -> (r: RequestBuilder<Effect, Event, Result<bool, KeyValueError>>)
//@contract
        ensures
            builder_op(r) == (KeyValueOperation::Exists { key: string_of(key) }), // [C17/command-exists/one-Exists-operation-carrying-the-given-key]
            forall|t: KeyValueResult, u: Result<bool, KeyValueError>| #![auto] builder_maps(r, t, u) ==> call_ensures(KeyValueResult::unwrap_exists, (t,), u), // [C17/command-exists/the-answer-is-mapped-by-unwrap_exists]
//@rule X16.into 1 s/key\.into\(\)/into_string(key)/
//@rule X1.closure-contract 1 closure#\.map\(#|$x: KeyValueResult| -> (res: Result<bool, KeyValueError>) requires call_requires(KeyValueResult::unwrap_exists, ($x,)) ensures call_ensures(KeyValueResult::unwrap_exists, ($x,), res) // [C17/command-exists/the-closure-given-to-map-answers-as-unwrap_exists-does]\n#
//@end

//@extract id=command::list_keys file=crux_kv/src/command.rs within="impl<Effect, Event> KeyValue<Effect, Event>" item="fn list_keys" props=C17
//@expect pub fn list_keys( prefix: impl Into<String>, cursor: u64, ) -> RequestBuilder<Effect, Event, impl Future<Output = ListResult>>
//@sig fn list_keys<K: Into<String>>(prefix: K, cursor: u64) -> (r: RequestBuilder<Effect, Event, Result<(Vec<String>, u64), KeyValueError>>)
//@contract
        ensures
            builder_op(r) == (KeyValueOperation::ListKeys { prefix: string_of(prefix), cursor: cursor }), // [C17/command-list_keys/one-ListKeys-operation-carrying-the-given-prefix-and-cursor]
            forall|t: KeyValueResult, u: Result<(Vec<String>, u64), KeyValueError>| #![auto] builder_maps(r, t, u) ==> call_ensures(KeyValueResult::unwrap_list_keys, (t,), u), // [C17/command-list_keys/the-answer-is-mapped-by-unwrap_list_keys]
//@rule X16.into 1 s/prefix\.into\(\)/into_string(prefix)/
//@rule X1.closure-contract 1 closure#\.map\(#|$x: KeyValueResult| -> (res: Result<(Vec<String>, u64), KeyValueError>) requires call_requires(KeyValueResult::unwrap_list_keys, ($x,)) ensures call_ensures(KeyValueResult::unwrap_list_keys, ($x,), res) // [C17/command-list_keys/the-closure-given-to-map-answers-as-unwrap_list_keys-does]\n#
//@end
}


// ------------------------------------------------------------------ the capability API (lib.rs): async, rule X17
// The five private `async fn` helpers, the five `*_async` methods and the five event-sending methods
// are checked as their SYNCHRONOUS PROJECTION (rule X17): `async fn` -> `fn`, `.await` erased, an
// `async move { .. }` block read as the block it runs when polled to completion, and the awaited
// shell request replaced by the assumed `request_from_shell` below, which records the operation in
// a ghost log and returns a universally quantified answer of the operation's kind. What X17 drops:
// rustc's future state machine (trusted compiler), WHEN the pieces run (unit Q decides scheduling),
// cancellation at an await point. What it keeps: every statement, branch and argument of the body.
pub mod capability_api {
    use super::*;

    pub tracked struct KW {
        /// operations handed to the shell by this capability, oldest first
        pub ghost emitted: Seq<KeyValueOperation>,
        /// the shell's answers, in the order they were awaited
        pub ghost answers: Seq<KeyValueResult>,
        /// events sent back to the app
        pub ghost events: Seq<EvId>,
    }
    /// identity of an app event value (the event type is the app's: opaque)
    pub struct EvId { pub id: int }
    pub uninterp spec fn ev_id<Ev>(e: Ev) -> EvId;

    /// the shell answers a request in the operation's own kind, or with an error (a wrong kind
    /// panics in unwrap_*: Kani k_wrong_kind_reject) - ASSUMED about the shell
    pub open spec fn in_kind(op: KeyValueOperation, r: KeyValueResult) -> bool {
        r is Err || match op {
            KeyValueOperation::Get { .. } => r->response is Get,
            KeyValueOperation::Set { .. } => r->response is Set,
            KeyValueOperation::Delete { .. } => r->response is Delete,
            KeyValueOperation::Exists { .. } => r->response is Exists,
            KeyValueOperation::ListKeys { .. } => r->response is ListKeys,
        }
    }

    #[verifier::external_body]
    #[verifier::accept_recursive_types(Op)]
    #[verifier::accept_recursive_types(Ev)]
    pub struct CapabilityContext<Op, Ev> { _p: core::marker::PhantomData<(Op, Ev)> }

    impl<Ev> CapabilityContext<KeyValueOperation, Ev> {
        // ASSUMED (crux_core/src/capability/mod.rs, async): awaiting it hands exactly this operation
        // to the shell once and yields the shell's answer, whatever that is
        #[verifier::external_body]
        pub fn request_from_shell(&self, Tracked(w): Tracked<&mut KW>, operation: KeyValueOperation) -> (r: KeyValueResult)
            ensures
                final(w).emitted == old(w).emitted.push(operation),
                final(w).answers == old(w).answers.push(r),
                final(w).events == old(w).events,
                in_kind(operation, r),
        { unimplemented!() }
        // ASSUMED (unit Q proves the real one: CapabilityContext::update_app)
        #[verifier::external_body]
        pub fn update_app(&self, Tracked(w): Tracked<&mut KW>, event: Ev)
            ensures
                final(w).events == old(w).events.push(ev_id(event)),
                final(w).emitted == old(w).emitted,
                final(w).answers == old(w).answers,
        { unimplemented!() }
        // X17: the task handed to spawn has, in the projection, already run to its end
        pub fn spawn(&self, _task: ()) {}
    }
    impl<Ev> Clone for CapabilityContext<KeyValueOperation, Ev> {
        #[verifier::external_body]
        fn clone(&self) -> (r: Self) { unimplemented!() }
    }

//@extract id=cap.KeyValue file=crux_kv/src/lib.rs item="struct KeyValue"
//@end

//@extract id=capability::get file=crux_kv/src/lib.rs item="fn get" props=C17
//@expect async fn get<Ev: 'static>( context: &CapabilityContext<KeyValueOperation, Ev>, key: String, ) -> Result<Option<Vec<u8>>, KeyValueError>
//@sig fn get<Ev: 'static>(Tracked(w): Tracked<&mut KW>, context: &CapabilityContext<KeyValueOperation, Ev>, key: String) -> (r: Result<Option<Vec<u8>>, KeyValueError>)
//@contract
        ensures
            final(w).emitted == old(w).emitted.push(KeyValueOperation::Get { key: key }), // [C17/capability-get/exactly-one-operation-of-its-kind-carrying-the-arguments-unchanged]
            final(w).answers.len() == old(w).answers.len() + 1, // [C17/capability-get/the-shell-is-asked-once]
            call_ensures(KeyValueResult::unwrap_get, (final(w).answers.last(),), r), // [C17/capability-get/the-answer-is-mapped-by-unwrap_get]
            final(w).events == old(w).events,
//@rule X17.await * s/\s*\.await\b//
//@rule X6.world * s/\.request_from_shell\(/.request_from_shell(Tracked(w), /
//@end

//@extract id=capability::set file=crux_kv/src/lib.rs item="fn set" props=C17
//@expect async fn set<Ev: 'static>( context: &CapabilityContext<KeyValueOperation, Ev>, key: String, value: Vec<u8>, ) -> Result<Option<Vec<u8>>, KeyValueError>
//@sig fn set<Ev: 'static>(Tracked(w): Tracked<&mut KW>, context: &CapabilityContext<KeyValueOperation, Ev>, key: String, value: Vec<u8>) -> (r: Result<Option<Vec<u8>>, KeyValueError>)
//@contract
        ensures
            final(w).emitted == old(w).emitted.push(KeyValueOperation::Set { key: key, value: value }), // [C17/capability-set/exactly-one-operation-of-its-kind-carrying-the-arguments-unchanged]
            final(w).answers.len() == old(w).answers.len() + 1, // [C17/capability-set/the-shell-is-asked-once]
            call_ensures(KeyValueResult::unwrap_set, (final(w).answers.last(),), r), // [C17/capability-set/the-answer-is-mapped-by-unwrap_set]
            final(w).events == old(w).events,
//@rule X17.await * s/\s*\.await\b//
//@rule X6.world * s/\.request_from_shell\(/.request_from_shell(Tracked(w), /
//@end

//@extract id=capability::delete file=crux_kv/src/lib.rs item="fn delete" props=C17
//@expect async fn delete<Ev: 'static>( context: &CapabilityContext<KeyValueOperation, Ev>, key: String, ) -> Result<Option<Vec<u8>>, KeyValueError>
//@sig fn delete<Ev: 'static>(Tracked(w): Tracked<&mut KW>, context: &CapabilityContext<KeyValueOperation, Ev>, key: String) -> (r: Result<Option<Vec<u8>>, KeyValueError>)
//@contract
        ensures
            final(w).emitted == old(w).emitted.push(KeyValueOperation::Delete { key: key }), // [C17/capability-delete/exactly-one-operation-of-its-kind-carrying-the-arguments-unchanged]
            final(w).answers.len() == old(w).answers.len() + 1, // [C17/capability-delete/the-shell-is-asked-once]
            call_ensures(KeyValueResult::unwrap_delete, (final(w).answers.last(),), r), // [C17/capability-delete/the-answer-is-mapped-by-unwrap_delete]
            final(w).events == old(w).events,
//@rule X17.await * s/\s*\.await\b//
//@rule X6.world * s/\.request_from_shell\(/.request_from_shell(Tracked(w), /
//@end

//@extract id=capability::exists file=crux_kv/src/lib.rs item="fn exists" props=C17
//@expect async fn exists<Ev: 'static>( context: &CapabilityContext<KeyValueOperation, Ev>, key: String, ) -> Result<bool, KeyValueError>
//@sig fn r#exists<Ev: 'static>(Tracked(w): Tracked<&mut KW>, context: &CapabilityContext<KeyValueOperation, Ev>, key: String) -> (r: Result<bool, KeyValueError>)
//@contract
        ensures
            final(w).emitted == old(w).emitted.push(KeyValueOperation::Exists { key: key }), // [C17/capability-exists/exactly-one-operation-of-its-kind-carrying-the-arguments-unchanged]
            final(w).answers.len() == old(w).answers.len() + 1, // [C17/capability-exists/the-shell-is-asked-once]
            call_ensures(KeyValueResult::unwrap_exists, (final(w).answers.last(),), r), // [C17/capability-exists/the-answer-is-mapped-by-unwrap_exists]
            final(w).events == old(w).events,
//@rule X17.await * s/\s*\.await\b//
//@rule X6.world * s/\.request_from_shell\(/.request_from_shell(Tracked(w), /
//@end

//@extract id=capability::list_keys file=crux_kv/src/lib.rs item="fn list_keys" props=C17
//@expect async fn list_keys<Ev: 'static>( context: &CapabilityContext<KeyValueOperation, Ev>, prefix: String, cursor: u64, ) -> Result<(Vec<String>, u64), KeyValueError>
//@sig fn list_keys<Ev: 'static>(Tracked(w): Tracked<&mut KW>, context: &CapabilityContext<KeyValueOperation, Ev>, prefix: String, cursor: u64) -> (r: Result<(Vec<String>, u64), KeyValueError>)
//@contract
        ensures
            final(w).emitted == old(w).emitted.push(KeyValueOperation::ListKeys { prefix: prefix, cursor: cursor }), // [C17/capability-list_keys/exactly-one-operation-of-its-kind-carrying-the-arguments-unchanged]
            final(w).answers.len() == old(w).answers.len() + 1, // [C17/capability-list_keys/the-shell-is-asked-once]
            call_ensures(KeyValueResult::unwrap_list_keys, (final(w).answers.last(),), r), // [C17/capability-list_keys/the-answer-is-mapped-by-unwrap_list_keys]
            final(w).events == old(w).events,
//@rule X17.await * s/\s*\.await\b//
//@rule X6.world * s/\.request_from_shell\(/.request_from_shell(Tracked(w), /
//@end

impl<Ev> KeyValue<Ev>
where
    Ev: 'static,
{

//@extract id=capability::get_async file=crux_kv/src/lib.rs within="impl<Ev> KeyValue<Ev>" item="fn get_async" props=C17
//@expect pub async fn get_async(&self, key: String) -> Result<Option<Vec<u8>>, KeyValueError>
//@sig fn get_async(&self, Tracked(w): Tracked<&mut KW>, key: String) -> (r: Result<Option<Vec<u8>>, KeyValueError>)
//@contract
        ensures
            final(w).emitted == old(w).emitted.push(KeyValueOperation::Get { key: key }), // [C17/capability-get_async/exactly-one-operation-of-its-kind-carrying-the-arguments-unchanged]
            final(w).answers.len() == old(w).answers.len() + 1, // [C17/capability-get_async/the-shell-is-asked-once]
            call_ensures(KeyValueResult::unwrap_get, (final(w).answers.last(),), r), // [C17/capability-get_async/the-answer-is-mapped-by-unwrap_get]
            final(w).events == old(w).events,
//@rule X17.await * s/\s*\.await\b//
//@rule X6.world * s/(?<![.\w])(get|set|delete|exists|list_keys)\(/\1(Tracked(w), /
//@rule X18.keyword * s/(?<![.\w#])exists\(Tracked/r#exists(Tracked/
//@end

//@extract id=capability::get(event) file=crux_kv/src/lib.rs within="impl<Ev> KeyValue<Ev>" item="fn get" props=C17
//@expect pub fn get<F>(&self, key: String, make_event: F) where F: FnOnce(Result<Option<Vec<u8>>, KeyValueError>) -> Ev + Send + Sync + 'static,
//@sig fn get<F>(&self, Tracked(w): Tracked<&mut KW>, key: String, make_event: F) where F: FnOnce(Result<Option<Vec<u8>>, KeyValueError>) -> Ev + Send + Sync + 'static,
//@contract
        requires
            forall|x: Result<Option<Vec<u8>>, KeyValueError>| call_requires(make_event, (x,)),
        ensures
            final(w).emitted == old(w).emitted.push(KeyValueOperation::Get { key: key }), // [C17/capability-get(event)/exactly-one-operation-of-its-kind-carrying-the-arguments-unchanged]
            final(w).answers.len() == old(w).answers.len() + 1, // [C17/capability-get(event)/the-shell-is-asked-once]
            final(w).events.len() == old(w).events.len() + 1, // [C17/capability-get(event)/exactly-one-event-for-the-app]
            exists|u: Result<Option<Vec<u8>>, KeyValueError>, e: Ev| #![auto] call_ensures(KeyValueResult::unwrap_get, (final(w).answers.last(),), u) && call_ensures(make_event, (u,), e) && final(w).events.last() == ev_id(e), // [C17/capability-get(event)/the-event-is-make_event-of-the-answer-mapped-by-unwrap_get]
//@rule X17.await * s/\s*\.await\b//
//@rule X17.async-block 1 s/async move \{/{/
//@rule X6.world * s/(?<![.\w])(get|set|delete|exists|list_keys)\(/\1(Tracked(w), /
//@rule X18.keyword * s/(?<![.\w#])exists\(Tracked/r#exists(Tracked/
//@rule X6.world * s/\.update_app\(/.update_app(Tracked(w), /
//@end

//@extract id=capability::set_async file=crux_kv/src/lib.rs within="impl<Ev> KeyValue<Ev>" item="fn set_async" props=C17
//@expect pub async fn set_async( &self, key: String, value: Vec<u8>, ) -> Result<Option<Vec<u8>>, KeyValueError>
//@sig fn set_async(&self, Tracked(w): Tracked<&mut KW>, key: String, value: Vec<u8>) -> (r: Result<Option<Vec<u8>>, KeyValueError>)
//@contract
        ensures
            final(w).emitted == old(w).emitted.push(KeyValueOperation::Set { key: key, value: value }), // [C17/capability-set_async/exactly-one-operation-of-its-kind-carrying-the-arguments-unchanged]
            final(w).answers.len() == old(w).answers.len() + 1, // [C17/capability-set_async/the-shell-is-asked-once]
            call_ensures(KeyValueResult::unwrap_set, (final(w).answers.last(),), r), // [C17/capability-set_async/the-answer-is-mapped-by-unwrap_set]
            final(w).events == old(w).events,
//@rule X17.await * s/\s*\.await\b//
//@rule X6.world * s/(?<![.\w])(get|set|delete|exists|list_keys)\(/\1(Tracked(w), /
//@rule X18.keyword * s/(?<![.\w#])exists\(Tracked/r#exists(Tracked/
//@end

//@extract id=capability::set(event) file=crux_kv/src/lib.rs within="impl<Ev> KeyValue<Ev>" item="fn set" props=C17
//@expect pub fn set<F>(&self, key: String, value: Vec<u8>, make_event: F) where F: FnOnce(Result<Option<Vec<u8>>, KeyValueError>) -> Ev + Send + Sync + 'static,
//@sig fn set<F>(&self, Tracked(w): Tracked<&mut KW>, key: String, value: Vec<u8>, make_event: F) where F: FnOnce(Result<Option<Vec<u8>>, KeyValueError>) -> Ev + Send + Sync + 'static,
//@contract
        requires
            forall|x: Result<Option<Vec<u8>>, KeyValueError>| call_requires(make_event, (x,)),
        ensures
            final(w).emitted == old(w).emitted.push(KeyValueOperation::Set { key: key, value: value }), // [C17/capability-set(event)/exactly-one-operation-of-its-kind-carrying-the-arguments-unchanged]
            final(w).answers.len() == old(w).answers.len() + 1, // [C17/capability-set(event)/the-shell-is-asked-once]
            final(w).events.len() == old(w).events.len() + 1, // [C17/capability-set(event)/exactly-one-event-for-the-app]
            exists|u: Result<Option<Vec<u8>>, KeyValueError>, e: Ev| #![auto] call_ensures(KeyValueResult::unwrap_set, (final(w).answers.last(),), u) && call_ensures(make_event, (u,), e) && final(w).events.last() == ev_id(e), // [C17/capability-set(event)/the-event-is-make_event-of-the-answer-mapped-by-unwrap_set]
//@rule X17.await * s/\s*\.await\b//
//@rule X17.async-block 1 s/async move \{/{/
//@rule X6.world * s/(?<![.\w])(get|set|delete|exists|list_keys)\(/\1(Tracked(w), /
//@rule X18.keyword * s/(?<![.\w#])exists\(Tracked/r#exists(Tracked/
//@rule X6.world * s/\.update_app\(/.update_app(Tracked(w), /
//@end

//@extract id=capability::delete_async file=crux_kv/src/lib.rs within="impl<Ev> KeyValue<Ev>" item="fn delete_async" props=C17
//@expect pub async fn delete_async(&self, key: String) -> Result<Option<Vec<u8>>, KeyValueError>
//@sig fn delete_async(&self, Tracked(w): Tracked<&mut KW>, key: String) -> (r: Result<Option<Vec<u8>>, KeyValueError>)
//@contract
        ensures
            final(w).emitted == old(w).emitted.push(KeyValueOperation::Delete { key: key }), // [C17/capability-delete_async/exactly-one-operation-of-its-kind-carrying-the-arguments-unchanged]
            final(w).answers.len() == old(w).answers.len() + 1, // [C17/capability-delete_async/the-shell-is-asked-once]
            call_ensures(KeyValueResult::unwrap_delete, (final(w).answers.last(),), r), // [C17/capability-delete_async/the-answer-is-mapped-by-unwrap_delete]
            final(w).events == old(w).events,
//@rule X17.await * s/\s*\.await\b//
//@rule X6.world * s/(?<![.\w])(get|set|delete|exists|list_keys)\(/\1(Tracked(w), /
//@rule X18.keyword * s/(?<![.\w#])exists\(Tracked/r#exists(Tracked/
//@end

//@extract id=capability::delete(event) file=crux_kv/src/lib.rs within="impl<Ev> KeyValue<Ev>" item="fn delete" props=C17
//@expect pub fn delete<F>(&self, key: String, make_event: F) where F: FnOnce(Result<Option<Vec<u8>>, KeyValueError>) -> Ev + Send + Sync + 'static,
//@sig fn delete<F>(&self, Tracked(w): Tracked<&mut KW>, key: String, make_event: F) where F: FnOnce(Result<Option<Vec<u8>>, KeyValueError>) -> Ev + Send + Sync + 'static,
//@contract
        requires
            forall|x: Result<Option<Vec<u8>>, KeyValueError>| call_requires(make_event, (x,)),
        ensures
            final(w).emitted == old(w).emitted.push(KeyValueOperation::Delete { key: key }), // [C17/capability-delete(event)/exactly-one-operation-of-its-kind-carrying-the-arguments-unchanged]
            final(w).answers.len() == old(w).answers.len() + 1, // [C17/capability-delete(event)/the-shell-is-asked-once]
            final(w).events.len() == old(w).events.len() + 1, // [C17/capability-delete(event)/exactly-one-event-for-the-app]
            exists|u: Result<Option<Vec<u8>>, KeyValueError>, e: Ev| #![auto] call_ensures(KeyValueResult::unwrap_delete, (final(w).answers.last(),), u) && call_ensures(make_event, (u,), e) && final(w).events.last() == ev_id(e), // [C17/capability-delete(event)/the-event-is-make_event-of-the-answer-mapped-by-unwrap_delete]
//@rule X17.await * s/\s*\.await\b//
//@rule X17.async-block 1 s/async move \{/{/
//@rule X6.world * s/(?<![.\w])(get|set|delete|exists|list_keys)\(/\1(Tracked(w), /
//@rule X18.keyword * s/(?<![.\w#])exists\(Tracked/r#exists(Tracked/
//@rule X6.world * s/\.update_app\(/.update_app(Tracked(w), /
//@end

//@extract id=capability::exists_async file=crux_kv/src/lib.rs within="impl<Ev> KeyValue<Ev>" item="fn exists_async" props=C17
//@expect pub async fn exists_async(&self, key: String) -> Result<bool, KeyValueError>
//@sig fn exists_async(&self, Tracked(w): Tracked<&mut KW>, key: String) -> (r: Result<bool, KeyValueError>)
//@contract
        ensures
            final(w).emitted == old(w).emitted.push(KeyValueOperation::Exists { key: key }), // [C17/capability-exists_async/exactly-one-operation-of-its-kind-carrying-the-arguments-unchanged]
            final(w).answers.len() == old(w).answers.len() + 1, // [C17/capability-exists_async/the-shell-is-asked-once]
            call_ensures(KeyValueResult::unwrap_exists, (final(w).answers.last(),), r), // [C17/capability-exists_async/the-answer-is-mapped-by-unwrap_exists]
            final(w).events == old(w).events,
//@rule X17.await * s/\s*\.await\b//
//@rule X6.world * s/(?<![.\w])(get|set|delete|exists|list_keys)\(/\1(Tracked(w), /
//@rule X18.keyword * s/(?<![.\w#])exists\(Tracked/r#exists(Tracked/
//@end

//@extract id=capability::exists(event) file=crux_kv/src/lib.rs within="impl<Ev> KeyValue<Ev>" item="fn exists" props=C17
//@expect pub fn exists<F>(&self, key: String, make_event: F) where F: FnOnce(Result<bool, KeyValueError>) -> Ev + Send + Sync + 'static,
//@sig fn r#exists<F>(&self, Tracked(w): Tracked<&mut KW>, key: String, make_event: F) where F: FnOnce(Result<bool, KeyValueError>) -> Ev + Send + Sync + 'static,
//@contract
        requires
            forall|x: Result<bool, KeyValueError>| call_requires(make_event, (x,)),
        ensures
            final(w).emitted == old(w).emitted.push(KeyValueOperation::Exists { key: key }), // [C17/capability-exists(event)/exactly-one-operation-of-its-kind-carrying-the-arguments-unchanged]
            final(w).answers.len() == old(w).answers.len() + 1, // [C17/capability-exists(event)/the-shell-is-asked-once]
            final(w).events.len() == old(w).events.len() + 1, // [C17/capability-exists(event)/exactly-one-event-for-the-app]
            exists|u: Result<bool, KeyValueError>, e: Ev| #![auto] call_ensures(KeyValueResult::unwrap_exists, (final(w).answers.last(),), u) && call_ensures(make_event, (u,), e) && final(w).events.last() == ev_id(e), // [C17/capability-exists(event)/the-event-is-make_event-of-the-answer-mapped-by-unwrap_exists]
//@rule X17.await * s/\s*\.await\b//
//@rule X17.async-block 1 s/async move \{/{/
//@rule X6.world * s/(?<![.\w])(get|set|delete|exists|list_keys)\(/\1(Tracked(w), /
//@rule X18.keyword * s/(?<![.\w#])exists\(Tracked/r#exists(Tracked/
//@rule X6.world * s/\.update_app\(/.update_app(Tracked(w), /
//@end

//@extract id=capability::list_keys_async file=crux_kv/src/lib.rs within="impl<Ev> KeyValue<Ev>" item="fn list_keys_async" props=C17
//@expect pub async fn list_keys_async( &self, prefix: String, cursor: u64, ) -> Result<(Vec<String>, u64), KeyValueError>
//@sig fn list_keys_async(&self, Tracked(w): Tracked<&mut KW>, prefix: String, cursor: u64) -> (r: Result<(Vec<String>, u64), KeyValueError>)
//@contract
        ensures
            final(w).emitted == old(w).emitted.push(KeyValueOperation::ListKeys { prefix: prefix, cursor: cursor }), // [C17/capability-list_keys_async/exactly-one-operation-of-its-kind-carrying-the-arguments-unchanged]
            final(w).answers.len() == old(w).answers.len() + 1, // [C17/capability-list_keys_async/the-shell-is-asked-once]
            call_ensures(KeyValueResult::unwrap_list_keys, (final(w).answers.last(),), r), // [C17/capability-list_keys_async/the-answer-is-mapped-by-unwrap_list_keys]
            final(w).events == old(w).events,
//@rule X17.await * s/\s*\.await\b//
//@rule X6.world * s/(?<![.\w])(get|set|delete|exists|list_keys)\(/\1(Tracked(w), /
//@rule X18.keyword * s/(?<![.\w#])exists\(Tracked/r#exists(Tracked/
//@end

//@extract id=capability::list_keys(event) file=crux_kv/src/lib.rs within="impl<Ev> KeyValue<Ev>" item="fn list_keys" props=C17
//@expect pub fn list_keys<F>(&self, prefix: String, cursor: u64, make_event: F) where F: FnOnce(Result<(Vec<String>, u64), KeyValueError>) -> Ev + Send + Sync + 'static,
//@sig fn list_keys<F>(&self, Tracked(w): Tracked<&mut KW>, prefix: String, cursor: u64, make_event: F) where F: FnOnce(Result<(Vec<String>, u64), KeyValueError>) -> Ev + Send + Sync + 'static,
//@contract
        requires
            forall|x: Result<(Vec<String>, u64), KeyValueError>| call_requires(make_event, (x,)),
        ensures
            final(w).emitted == old(w).emitted.push(KeyValueOperation::ListKeys { prefix: prefix, cursor: cursor }), // [C17/capability-list_keys(event)/exactly-one-operation-of-its-kind-carrying-the-arguments-unchanged]
            final(w).answers.len() == old(w).answers.len() + 1, // [C17/capability-list_keys(event)/the-shell-is-asked-once]
            final(w).events.len() == old(w).events.len() + 1, // [C17/capability-list_keys(event)/exactly-one-event-for-the-app]
            exists|u: Result<(Vec<String>, u64), KeyValueError>, e: Ev| #![auto] call_ensures(KeyValueResult::unwrap_list_keys, (final(w).answers.last(),), u) && call_ensures(make_event, (u,), e) && final(w).events.last() == ev_id(e), // [C17/capability-list_keys(event)/the-event-is-make_event-of-the-answer-mapped-by-unwrap_list_keys]
//@rule X17.await * s/\s*\.await\b//
//@rule X17.async-block 1 s/async move \{/{/
//@rule X6.world * s/(?<![.\w])(get|set|delete|exists|list_keys)\(/\1(Tracked(w), /
//@rule X18.keyword * s/(?<![.\w#])exists\(Tracked/r#exists(Tracked/
//@rule X6.world * s/\.update_app\(/.update_app(Tracked(w), /
//@end
}
} // mod capability_api

} // verus!

fn main() {}
