// Unit X (C02): the Command API's request/stream constructors (command/context.rs:52-104) and
// the resolve closures they build, extracted verbatim. What is decided: a stream's continuation
// hands the value to the request's own private channel and reports failure EXACTLY when that
// channel does (futures-mpsc refuses a value iff the receiving stream is gone: ASSUMED), so that
// a resolution is rejected iff its consumer has ended; the one-shot continuation offers the value
// to its own channel and ignores a closed one; each request gets a fresh channel whose receiver
// goes into the returned future/stream and nowhere else.
// Rewrites (counted): X1 contracts incl. closure contracts, X2, X3, X5 opaque types, X8 wildcard.
use vstd::prelude::*;

verus! {

// ------------------------------------------------------------------ assumed: futures::channel::mpsc (unbounded)
pub mod mpsc {
    use super::*;
    #[verifier::external_body]
    #[verifier::accept_recursive_types(T)]
    pub struct UnboundedSender<T> { _p: core::marker::PhantomData<T> }
    #[verifier::external_body]
    #[verifier::accept_recursive_types(T)]
    pub struct UnboundedReceiver<T> { _p: core::marker::PhantomData<T> }
    #[verifier::external_body]
    #[verifier::accept_recursive_types(T)]
    pub struct TrySendError<T> { _p: core::marker::PhantomData<T> }

    impl<T> core::fmt::Debug for TrySendError<T> {
        #[verifier::external_body]
        fn fmt(&self, f: &mut core::fmt::Formatter<'_>) -> core::fmt::Result { unimplemented!() }
    }
    /// which channel an end belongs to
    pub uninterp spec fn chan_s<T>(s: UnboundedSender<T>) -> int;
    pub uninterp spec fn chan_r<T>(r: UnboundedReceiver<T>) -> int;
    /// whether the channel accepts this value now (futures-mpsc: iff its receiver is still alive);
    /// a prophecy of the consumer's state at the time of the call: uninterpreted
    pub uninterp spec fn accepts<T>(s: UnboundedSender<T>, v: T) -> bool;

    #[verifier::external_body]
    pub fn unbounded<T>() -> (r: (UnboundedSender<T>, UnboundedReceiver<T>))
        ensures chan_s(r.0) == chan_r(r.1),
    { unimplemented!() }

    impl<T> UnboundedSender<T> {
        #[verifier::external_body]
        pub fn unbounded_send(&self, v: T) -> (r: Result<(), TrySendError<T>>)
            ensures r is Ok <==> accepts(*self, v),
        { unimplemented!() }
    }
}

// ------------------------------------------------------------------ X5: opaque crux types
pub trait Operation { type Output; }
/// crux_core::Request<Op>; `cont_*` expose what it was built from
#[verifier::external_body]
#[verifier::accept_recursive_types(Op)]
pub struct Request<Op: Operation> { _p: core::marker::PhantomData<Op> }
/// crossbeam Sender of the command's effect channel (only cloned and moved here)
#[verifier::external_body]
#[verifier::accept_recursive_types(T)]
pub struct Sender<T> { _p: core::marker::PhantomData<T> }
impl<T> Clone for Sender<T> {
    #[verifier::external_body]
    fn clone(&self) -> (r: Self) { unimplemented!() }
}
#[verifier::external_body]
#[verifier::accept_recursive_types(T)]
pub struct SendError<T> { _p: core::marker::PhantomData<T> }
impl<T> core::fmt::Debug for SendError<T> {
    #[verifier::external_body]
    fn fmt(&self, f: &mut core::fmt::Formatter<'_>) -> core::fmt::Result { unimplemented!() }
}
impl<T> Sender<T> {
    // ASSUMED: the command's effect receiver is alive while its tasks run
    #[verifier::external_body]
    pub fn send(&self, t: T) -> (r: Result<(), SendError<T>>)
        ensures r is Ok,
    { unimplemented!() }
}
#[verifier::external_body]
pub struct Task { _p: u8 }

/// which private channel a request's continuation feeds (set by the constructors below)
pub uninterp spec fn feeds<Op: Operation>(r: Request<Op>) -> int;
pub uninterp spec fn arity<Op: Operation>(r: Request<Op>) -> int;

impl<Op: Operation> Request<Op> {
    // ASSUMED constructors (core/request.rs): they store the operation and the continuation.
    // The continuation's own contract (`call_ensures`) is what the extracted functions prove.
    #[verifier::external_body]
    pub fn resolves_once<F: FnOnce(Op::Output)>(operation: Op, resolve: F) -> (r: Request<Op>)
        ensures arity(r) == 1,
    { unimplemented!() }
    #[verifier::external_body]
    pub fn resolves_many_times<F: Fn(Op::Output) -> Result<(), ()>>(operation: Op, resolve: F) -> (r: Request<Op>)
        ensures arity(r) == 2,
    { unimplemented!() }
}

/// ShellStream::new / ShellRequest::new (private constructors in the same file): the returned
/// value owns the receiver
#[verifier::external_body]
#[verifier::accept_recursive_types(T)]
pub struct ShellStream<T> { _p: core::marker::PhantomData<T> }
#[verifier::external_body]
#[verifier::accept_recursive_types(T)]
pub struct ShellRequest<T> { _p: core::marker::PhantomData<T> }
pub uninterp spec fn stream_chan<T>(s: ShellStream<T>) -> int;
pub uninterp spec fn request_chan<T>(s: ShellRequest<T>) -> int;
impl<T> ShellStream<T> {
    #[verifier::external_body]
    pub fn new<F: FnOnce()>(send_request: F, output_receiver: mpsc::UnboundedReceiver<T>) -> (r: ShellStream<T>)
        ensures stream_chan(r) == mpsc::chan_r(output_receiver),
    { unimplemented!() }
}
impl<T> ShellRequest<T> {
    #[verifier::external_body]
    pub fn new<F: FnOnce()>(send_request: F, output_receiver: mpsc::UnboundedReceiver<T>) -> (r: ShellRequest<T>)
        ensures request_chan(r) == mpsc::chan_r(output_receiver),
    { unimplemented!() }
}
impl<Op: Operation> Request<Op> {
    #[verifier::external_body]
    pub fn resolves_never(operation: Op) -> (r: Request<Op>)
        ensures arity(r) == 0,
    { unimplemented!() }
}

//@extract id=CommandContext file=crux_core/src/command/context.rs item="struct CommandContext"
//@rule X2.vis * s/pub\(crate\)/pub/
//@end

impl<Effect, Event> CommandContext<Effect, Event> {
//@extract id=CommandContext::notify_shell file=crux_core/src/command/context.rs within="impl<Effect, Event> CommandContext<Effect, Event>" item="fn notify_shell" props=C02
//@expect pub fn notify_shell<Op>(&self, operation: Op) where Op: Operation, Effect: From<Request<Op>>,
//@end

//@extract id=CommandContext::request_from_shell file=crux_core/src/command/context.rs within="impl<Effect, Event> CommandContext<Effect, Event>" item="fn request_from_shell" props=C02+C06
//@expect pub fn request_from_shell<Op>(&self, operation: Op) -> ShellRequest<Op::Output> where Op: Operation, Effect: From<Request<Op>> + Send + 'static,
//@sig pub fn request_from_shell<Op>(&self, operation: Op) -> (r: ShellRequest<Op::Output>) where Op: Operation, Effect: From<Request<Op>>,
//@rule X1.closure-contract 1 s#move \|output\| \{#move |output: Op::Output| -> (res: ())\n            ensures true, // [C02+C06/one-shot-continuation/offers-the-value-to-its-own-channel-and-never-panics-on-a-closed-one]\n        {#
//@rule X15.box-erasure * s#Box::new\(send_request\)#send_request#
//@end

//@extract id=CommandContext::stream_from_shell file=crux_core/src/command/context.rs within="impl<Effect, Event> CommandContext<Effect, Event>" item="fn stream_from_shell" props=C02+C06
//@expect pub fn stream_from_shell<Op>(&self, operation: Op) -> ShellStream<Op::Output> where Op: Operation, Effect: From<Request<Op>> + Send + 'static,
//@sig pub fn stream_from_shell<Op>(&self, operation: Op) -> (r: ShellStream<Op::Output>) where Op: Operation, Effect: From<Request<Op>>,
//@rule X1.closure-contract 1 s#move \|output\| \{#move |output: Op::Output| -> (res: Result<(), ()>)\n            ensures res is Ok <==> mpsc::accepts(output_sender, output), // [C02+C06/stream-continuation/accepted-iff-the-requests-own-channel-accepts-so-rejected-iff-its-consumer-has-ended]\n        {#
//@rule X8.closure-wildcard * s/\|_\|/|_e|/
//@end
}

} // verus!

fn main() {}
