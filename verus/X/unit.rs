// Unit X (C02): the Command API's request/stream constructors (command/context.rs:52-104) and
// the resolve closures they build, extracted verbatim. What is decided: a stream's continuation
// hands the value to the request's own private channel and reports failure EXACTLY when that
// channel does (futures-mpsc refuses a value iff the receiving stream is gone: ASSUMED), so that
// a resolution is rejected iff its consumer has ended; the one-shot continuation offers the value
// to its own channel and ignores a closed one; each request gets a fresh channel whose receiver
// goes into the returned future/stream and nowhere else.
// Rewrites (counted): X1 contracts incl. closure contracts, X2, X3, X5 opaque types, X8 wildcard.
use vstd::prelude::*;

verus! {

// ------------------------------------------------------------------ assumed: futures::channel::mpsc (unbounded)
pub mod mpsc {
    use super::*;
    #[verifier::external_body]
    #[verifier::accept_recursive_types(T)]
    pub struct UnboundedSender<T> { _p: core::marker::PhantomData<T> }
    #[verifier::external_body]
    #[verifier::accept_recursive_types(T)]
    pub struct UnboundedReceiver<T> { _p: core::marker::PhantomData<T> }
    #[verifier::external_body]
    #[verifier::accept_recursive_types(T)]
    pub struct TrySendError<T> { _p: core::marker::PhantomData<T> }

    impl<T> core::fmt::Debug for TrySendError<T> {
        #[verifier::external_body]
        fn fmt(&self, f: &mut core::fmt::Formatter<'_>) -> core::fmt::Result { unimplemented!() }
    }
    /// which channel an end belongs to
    pub uninterp spec fn chan_s<T>(s: UnboundedSender<T>) -> int;
    pub uninterp spec fn chan_r<T>(r: UnboundedReceiver<T>) -> int;
    /// whether the channel accepts this value now (futures-mpsc: iff its receiver is still alive);
    /// a prophecy of the consumer's state at the time of the call: uninterpreted
    pub uninterp spec fn accepts<T>(s: UnboundedSender<T>, v: T) -> bool;

    #[verifier::external_body]
    pub fn unbounded<T>() -> (r: (UnboundedSender<T>, UnboundedReceiver<T>))
        ensures chan_s(r.0) == chan_r(r.1),
    { unimplemented!() }

    impl<T> UnboundedSender<T> {
        #[verifier::external_body]
        pub fn unbounded_send(&self, v: T) -> (r: Result<(), TrySendError<T>>)
            ensures r is Ok <==> accepts(*self, v),
        { unimplemented!() }
    }
}

// ------------------------------------------------------------------ X5: opaque crux types
pub trait Operation { type Output; }
/// crux_core::Request<Op>; `cont_*` expose what it was built from
#[verifier::external_body]
#[verifier::accept_recursive_types(Op)]
pub struct Request<Op: Operation> { _p: core::marker::PhantomData<Op> }
/// crossbeam Sender of the command's effect channel (only cloned and moved here)
#[verifier::external_body]
#[verifier::accept_recursive_types(T)]
pub struct Sender<T> { _p: core::marker::PhantomData<T> }
impl<T> Clone for Sender<T> {
    #[verifier::external_body]
    fn clone(&self) -> (r: Self) { unimplemented!() }
}
#[verifier::external_body]
#[verifier::accept_recursive_types(T)]
pub struct SendError<T> { _p: core::marker::PhantomData<T> }
impl<T> core::fmt::Debug for SendError<T> {
    #[verifier::external_body]
    fn fmt(&self, f: &mut core::fmt::Formatter<'_>) -> core::fmt::Result { unimplemented!() }
}
impl<T> Sender<T> {
    // ASSUMED: the command's effect receiver is alive while its tasks run
    #[verifier::external_body]
    pub fn send(&self, t: T) -> (r: Result<(), SendError<T>>)
        ensures r is Ok,
    { unimplemented!() }
}
#[verifier::external_body]
pub struct Task { _p: u8 }

/// which private channel a request's continuation feeds (set by the constructors below)
pub uninterp spec fn feeds<Op: Operation>(r: Request<Op>) -> int;
pub uninterp spec fn arity<Op: Operation>(r: Request<Op>) -> int;

impl<Op: Operation> Request<Op> {
    // ASSUMED constructors (core/request.rs): they store the operation and the continuation.
    // The continuation's own contract (`call_ensures`) is what the extracted functions prove.
    #[verifier::external_body]
    pub fn resolves_once<F: FnOnce(Op::Output)>(operation: Op, resolve: F) -> (r: Request<Op>)
        ensures arity(r) == 1,
    { unimplemented!() }
    #[verifier::external_body]
    pub fn resolves_many_times<F: Fn(Op::Output) -> Result<(), ()>>(operation: Op, resolve: F) -> (r: Request<Op>)
        ensures arity(r) == 2,
    { unimplemented!() }
}

/// ShellStream::new / ShellRequest::new (private constructors in the same file): the returned
/// value owns the receiver
#[verifier::external_body]
#[verifier::accept_recursive_types(T)]
pub struct ShellStream<T> { _p: core::marker::PhantomData<T> }
#[verifier::external_body]
#[verifier::accept_recursive_types(T)]
pub struct ShellRequest<T> { _p: core::marker::PhantomData<T> }
pub uninterp spec fn stream_chan<T>(s: ShellStream<T>) -> int;
pub uninterp spec fn request_chan<T>(s: ShellRequest<T>) -> int;
impl<T> ShellStream<T> {
    #[verifier::external_body]
    pub fn new<F: FnOnce()>(send_request: F, output_receiver: mpsc::UnboundedReceiver<T>) -> (r: ShellStream<T>)
        ensures stream_chan(r) == mpsc::chan_r(output_receiver),
    { unimplemented!() }
}
impl<T> ShellRequest<T> {
    #[verifier::external_body]
    pub fn new<F: FnOnce()>(send_request: F, output_receiver: mpsc::UnboundedReceiver<T>) -> (r: ShellRequest<T>)
        ensures request_chan(r) == mpsc::chan_r(output_receiver),
    { unimplemented!() }
}
impl<Op: Operation> Request<Op> {
    #[verifier::external_body]
    pub fn resolves_never(operation: Op) -> (r: Request<Op>)
        ensures arity(r) == 0,
    { unimplemented!() }
}

//@extract id=CommandContext file=crux_core/src/command/context.rs item="struct CommandContext"
//@rule X2.vis * s/pub\(crate\)/pub/
//@end

impl<Effect, Event> CommandContext<Effect, Event> {
//@extract id=CommandContext::notify_shell file=crux_core/src/command/context.rs within="impl<Effect, Event> CommandContext<Effect, Event>" item="fn notify_shell" props=C02
//@expect pub fn notify_shell<Op>(&self, operation: Op) where Op: Operation, Effect: From<Request<Op>>,
//@end

//@extract id=CommandContext::request_from_shell file=crux_core/src/command/context.rs within="impl<Effect, Event> CommandContext<Effect, Event>" item="fn request_from_shell" props=C02+C06
//@expect pub fn request_from_shell<Op>(&self, operation: Op) -> ShellRequest<Op::Output> where Op: Operation, Effect: From<Request<Op>> + Send + 'static,
//@sig pub fn request_from_shell<Op>(&self, operation: Op) -> (r: ShellRequest<Op::Output>) where Op: Operation, Effect: From<Request<Op>>,
//@rule X1.closure-contract 1 closure#Request::resolves_once\(operation,\s*#|$x: Op::Output| -> (res: ())\n            ensures true, // [C02+C06/one-shot-continuation/offers-the-value-to-its-own-channel-and-never-panics-on-a-closed-one]\n#
//@rule X15.box-erasure * s#Box::new\(send_request\)#send_request#
//@end

//@extract id=CommandContext::stream_from_shell file=crux_core/src/command/context.rs within="impl<Effect, Event> CommandContext<Effect, Event>" item="fn stream_from_shell" props=C02+C06
//@expect pub fn stream_from_shell<Op>(&self, operation: Op) -> ShellStream<Op::Output> where Op: Operation, Effect: From<Request<Op>> + Send + 'static,
//@sig pub fn stream_from_shell<Op>(&self, operation: Op) -> (r: ShellStream<Op::Output>) where Op: Operation, Effect: From<Request<Op>>,
//@rule X1.closure-contract 1 closure#Request::resolves_many_times\(operation,\s*#|$x: Op::Output| -> (res: Result<(), ()>)\n            ensures res is Ok <==> mpsc::accepts(output_sender, $x), // [C02+C06/stream-continuation/accepted-iff-the-requests-own-channel-accepts-so-rejected-iff-its-consumer-has-ended]\n#
//@rule X8.closure-wildcard * s/\|_\|/|_e|/
//@end
}


// ================================================================== the future side (command/context.rs:150-230)
// ShellStream::{send, poll_next} and ShellRequest::poll, extracted verbatim. The request's private
// channel is shared with the resolve continuation (proved above), which another call - or another
// thread - runs: the contracts below are quantified over EVERY state of that channel at the call.
pub mod future_side {
    use super::*;

    pub tracked struct XW {
        /// how many times the request has been handed to the shell (the boxed send_request called)
        pub ghost sent: nat,
        /// values the continuation has put into the channel that the stream has not yet taken
        pub ghost pending: Seq<int>,
        /// every sender is gone (the request was dropped unresolved / its stream ended)
        pub ghost closed: bool,
        /// the waker the receiving end holds for its consumer
        pub ghost rx_waker: Option<int>,
    }
    pub uninterp spec fn val_id<T>(t: T) -> int;

    #[verifier::external_body]
    pub struct Context<'a> { _p: core::marker::PhantomData<&'a ()> }
    impl<'a> Context<'a> {
        pub uninterp spec fn waker_id(&self) -> int;
    }
    pub enum Poll<T> { Ready(T), Pending }

    /// X5: `Box<dyn FnOnce() + Send>` - the deferred `effects.send(effect).expect(..)` built by the
    /// constructors above
    #[verifier::external_body]
    pub struct SendRequest { _p: u8 }
    impl SendRequest {
        #[verifier::external_body]
        pub fn call(self, Tracked(w): Tracked<&mut XW>)
            ensures *final(w) == (XW { sent: old(w).sent + 1, ..*old(w) }),
        { unimplemented!() }
    }
    pub assume_specification<T> [std::mem::replace] (dest: &mut T, src: T) -> (r: T)
        ensures *final(dest) == src, r == *old(dest);

    /// ASSUMED: futures::channel::mpsc::UnboundedReceiver as a Stream (X12: `pin!(rx).poll_next(cx)`):
    /// the oldest value if there is one; end of stream once empty and every sender is gone;
    /// otherwise Pending with the consumer's waker stored for the next send / close
    #[verifier::external_body]
    #[verifier::accept_recursive_types(T)]
    pub struct Receiver<T> { _p: core::marker::PhantomData<T> }
    impl<T> Receiver<T> {
        #[verifier::external_body]
        pub fn poll_next(&mut self, Tracked(w): Tracked<&mut XW>, cx: &mut Context<'_>) -> (r: Poll<Option<T>>)
            ensures
                old(w).pending.len() > 0 ==> (r matches Poll::Ready(Some(v)) && val_id(v) == old(w).pending[0] && *final(w) == (XW { pending: old(w).pending.drop_first(), ..*old(w) })),
                old(w).pending.len() == 0 && old(w).closed ==> r == Poll::Ready(None::<T>) && *final(w) == *old(w),
                old(w).pending.len() == 0 && !old(w).closed ==> r is Pending && *final(w) == (XW { rx_waker: Some(old(cx).waker_id()), ..*old(w) }),
        { unimplemented!() }
    }
    /// `mpsc::unbounded().1` (the throw-away receiver of ShellStream::send's swap)
    #[verifier::external_body]
    pub fn dummy_receiver<T>() -> Receiver<T> { unimplemented!() }

//@extract id=fut.ShellStream file=crux_core/src/command/context.rs item="enum ShellStream"
//@contract
    #[verifier::reject_recursive_types(T)]
//@rule X3.auto-traits 1 s/<T: Unpin \+ Send>/<T>/
//@rule X5.boxed-fnonce 1 s/Box<dyn FnOnce\(\) \+ Send>/SendRequest/
//@rule X5.mpsc * s/mpsc::UnboundedReceiver<T>/Receiver<T>/
//@end

    impl<T> ShellStream<T> {
//@extract id=ShellStream::send file=crux_core/src/command/context.rs within="impl<T: Unpin + Send> ShellStream<T>" item="fn send" props=C01+C02
//@expect fn send(&mut self)
//@sig pub fn send(&mut self, Tracked(w): Tracked<&mut XW>)
//@contract
            requires
                *old(self) is ReadyToSend,
            ensures
                *final(self) == ShellStream::Sent(old(self)->ReadyToSend_1), // [C02/ShellStream::send/keeps-its-own-receiver]
                *final(w) == (XW { sent: old(w).sent + 1, ..*old(w) }), // [C01+C02/ShellStream::send/hands-the-request-to-the-shell-exactly-once]
//@rule X5.mpsc 1 s/mpsc::unbounded\(\)\.1/dummy_receiver()/
//@bind send ShellStream::ReadyToSend\((\w+),
//@rule X6.world 1 s/\b$send\(\)/$send.call(Tracked(w))/
//@end

//@extract id=ShellStream::poll_next file=crux_core/src/command/context.rs within="impl<T: Unpin + Send> Stream for ShellStream<T>" item="fn poll_next" props=C01+C02+C05+C07
//@expect fn poll_next(mut self: Pin<&mut Self>, cx: &mut Context<'_>) -> Poll<Option<Self::Item>>
//@sig pub fn poll_next(&mut self, Tracked(w): Tracked<&mut XW>, cx: &mut Context<'_>) -> (r: Poll<Option<T>>)
//@contract
            requires
                // the only sender of the private channel lives in the resolve continuation inside the
                // request, which nobody has seen before it is sent (constructors above)
                *old(self) is ReadyToSend ==> old(w).pending.len() == 0 && !old(w).closed,
            ensures
                *final(self) is Sent,
                *old(self) is ReadyToSend ==> r is Pending && final(w).sent == old(w).sent + 1, // [C01+C02/ShellStream::poll_next/the-first-poll-hands-the-request-to-the-shell-exactly-once-and-waits]
                *old(self) is ReadyToSend ==> final(w).rx_waker == Some(old(cx).waker_id()), // [C02+C05/ShellStream::poll_next/the-consumers-waker-is-in-place-before-the-request-can-be-answered]
                *old(self) is Sent ==> final(w).sent == old(w).sent, // [C01+C02/ShellStream::poll_next/the-request-is-never-sent-twice]
                *old(self) is Sent && old(w).pending.len() > 0 ==> (r matches Poll::Ready(Some(v)) && val_id(v) == old(w).pending[0] && final(w).pending == old(w).pending.drop_first()), // [C02/ShellStream::poll_next/the-oldest-undelivered-value-is-yielded-unchanged-and-removed]
                *old(self) is Sent && old(w).pending.len() == 0 && !old(w).closed ==> r is Pending && final(w).rx_waker == Some(old(cx).waker_id()), // [C02+C05/ShellStream::poll_next/pending-only-with-the-consumers-waker-stored]
                *old(self) is Sent && old(w).pending.len() == 0 && old(w).closed ==> r == Poll::Ready(None::<T>) && *final(w) == *old(w), // [C07/ShellStream::poll_next/a-closed-channel-ends-the-stream-and-stores-no-waker]
//@rule X12.pin-erasure * s/pin!\((\w+)\)\.poll_next\(cx\)/\1.poll_next(Tracked(w), cx)/
//@rule X9.assert 1 s#assert!\(matches!\((\w+), Poll::Pending\)\);#assert(matches!(\1, Poll::Pending)); // [C02/ShellStream::poll_next/nothing-can-have-arrived-before-the-request-was-sent]#
//@rule X6.world 1 s/self\.send\(\)/self.send(Tracked(w))/
//@end
    }

    /// ASSUMED: `Fuse<StreamFuture<ShellStream<T>>>` (futures 0.3), by what `poll_unpin` does: unless
    /// it has already completed, poll the stream's `poll_next` (proved above) once and complete with
    /// its item; once completed, answer Pending and touch nothing (Fuse)
    #[verifier::external_body]
    #[verifier::reject_recursive_types(T)]
    pub struct FusedStreamFuture<T> { _p: core::marker::PhantomData<T> }
    #[verifier::external_body]
    #[verifier::reject_recursive_types(T)]
    pub struct Rest<T> { _p: core::marker::PhantomData<T> }
    impl<T> FusedStreamFuture<T> {
        pub uninterp spec fn terminated(&self) -> bool;
        pub uninterp spec fn stream(&self) -> ShellStream<T>;
        #[verifier::external_body]
        pub fn poll_unpin(&mut self, Tracked(w): Tracked<&mut XW>, cx: &mut Context<'_>) -> (r: Poll<(Option<T>, Rest<T>)>)
            requires
                !old(self).terminated() && old(self).stream() is ReadyToSend ==> old(w).pending.len() == 0 && !old(w).closed,
            ensures
                old(self).terminated() ==> r is Pending && *final(w) == *old(w) && final(self).terminated(),
                !old(self).terminated() ==> final(self).terminated() == (r is Ready),
                // the stream's own contract (ShellStream::poll_next above), for a stream already sent
                !old(self).terminated() && old(self).stream() is Sent && old(w).pending.len() > 0 ==> (r matches Poll::Ready((Some(v), _)) && val_id(v) == old(w).pending[0] && final(w).pending == old(w).pending.drop_first() && final(w).sent == old(w).sent),
                !old(self).terminated() && old(self).stream() is Sent && old(w).pending.len() == 0 && old(w).closed ==> (r matches Poll::Ready((None, _))) && *final(w) == *old(w),
                !old(self).terminated() && old(self).stream() is Sent && old(w).pending.len() == 0 && !old(w).closed ==> r is Pending && final(w).rx_waker == Some(old(cx).waker_id()) && final(w).sent == old(w).sent,
                !old(self).terminated() && old(self).stream() is ReadyToSend ==> r is Pending && final(w).sent == old(w).sent + 1 && final(w).rx_waker == Some(old(cx).waker_id()),
                !old(self).terminated() ==> final(self).stream() is Sent,
                old(self).terminated() ==> final(self).stream() == old(self).stream(),
        { unimplemented!() }
    }

//@extract id=fut.ShellRequest file=crux_core/src/command/context.rs item="struct ShellRequest"
//@contract
    #[verifier::reject_recursive_types(T)]
//@rule X3.auto-traits 1 s/<T: Unpin \+ Send>/<T>/
//@rule X5.futures-adapters 1 s/Fuse<StreamFuture<ShellStream<T>>>/FusedStreamFuture<T>/
//@rule X2.vis 1 s/\n(\s+)inner:/\n\1pub inner:/
//@end

    impl<T> ShellRequest<T> {
//@extract id=ShellRequest::poll file=crux_core/src/command/context.rs within="impl<T: Unpin + Send> Future for ShellRequest<T>" item="fn poll" props=C02+C07
//@expect fn poll(mut self: Pin<&mut Self>, cx: &mut Context<'_>) -> Poll<Self::Output>
//@sig pub fn poll(&mut self, Tracked(w): Tracked<&mut XW>, cx: &mut Context<'_>) -> (r: Poll<T>)
//@contract
            requires
                !old(self).inner.terminated() && old(self).inner.stream() is ReadyToSend ==> old(w).pending.len() == 0 && !old(w).closed,
            ensures
                !old(self).inner.terminated() && old(self).inner.stream() is Sent && old(w).pending.len() > 0 ==> (r matches Poll::Ready(v) && val_id(v) == old(w).pending[0]), // [C02/ShellRequest::poll/the-response-is-returned-unchanged]
                r is Ready ==> !old(self).inner.terminated() && old(w).pending.len() > 0 && final(self).inner.terminated(), // [C02+C07/ShellRequest::poll/ready-only-with-a-delivered-response-and-only-once]
                !old(self).inner.terminated() && old(self).inner.stream() is Sent && old(w).pending.len() == 0 && old(w).closed ==> r is Pending && *final(w) == *old(w) && final(self).inner.terminated(), // [C07/ShellRequest::poll/a-request-whose-channel-closed-stays-pending-and-stores-no-waker]
                old(self).inner.terminated() ==> r is Pending && *final(w) == *old(w), // [C07/ShellRequest::poll/and-never-registers-a-waker-again]
                !old(self).inner.terminated() && old(self).inner.stream() is ReadyToSend ==> r is Pending && final(w).sent == old(w).sent + 1, // [C01+C02/ShellRequest::poll/the-first-poll-hands-the-request-to-the-shell-exactly-once]
                !(!old(self).inner.terminated() && old(self).inner.stream() is ReadyToSend) ==> final(w).sent == old(w).sent, // [C01+C02/ShellRequest::poll/never-sent-twice]
//@rule X6.world 1 s/self\.inner\.poll_unpin\(cx\)/self.inner.poll_unpin(Tracked(w), cx)/
//@end
    }
}

} // verus!

fn main() {}
