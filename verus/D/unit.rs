// Unit D (C15): crux_http/src/response/decode.rs `decode_body` - the variant built with the default
// `encoding` feature on native targets - extracted verbatim on every run. encoding_rs is third-party:
// `Encoding::for_label` and `Encoding::decode` are uninterpreted (whatever a conforming decoder does).
// What is decided is crux's own step: the body is decoded with exactly the encoding the declared
// charset names (UTF-8 when none is declared), an unknown label or a malformed body is an error value,
// and the text handed on is exactly what the decoder produced.
use vstd::prelude::*;

verus! {

/// `&'static encoding_rs::Encoding`
#[derive(Clone, Copy)]
pub struct Encoding { pub id: u16 }
pub enum Cow<'a> { Borrowed(&'a str), Owned(String) }
/// what encoding_rs answers (uninterpreted)
pub uninterp spec fn for_label_s(label: Seq<u8>) -> Option<Encoding>;
pub uninterp spec fn decode_text(e: Encoding, bytes: Seq<u8>) -> Seq<char>;
pub uninterp spec fn decode_failed(e: Encoding, bytes: Seq<u8>) -> bool;
pub uninterp spec fn decode_used(e: Encoding, bytes: Seq<u8>) -> Encoding;
pub uninterp spec fn str_bytes(s: Seq<char>) -> Seq<u8>;
// ASSUMED (core): the UTF-8 bytes of a str
#[verifier::external_body]
pub fn as_bytes(s: &str) -> (r: &[u8])
    ensures r@ == str_bytes(s@),
{ unimplemented!() }
impl Encoding {
    // ASSUMED (encoding_rs::Encoding::for_label)
    #[verifier::external_body]
    pub fn for_label(label: &[u8]) -> (r: Option<Encoding>)
        ensures r == for_label_s(label@),
    { unimplemented!() }
    // ASSUMED (encoding_rs::Encoding::decode, with BOM sniffing): text, encoding actually used, malformed?;
    // borrowed text IS the input read as UTF-8 (encoding_rs's documented guarantee, which the body's unsafe block relies on)
    #[verifier::external_body]
    pub fn decode<'a>(&self, bytes: &'a Vec<u8>) -> (r: (Cow<'a>, Encoding, bool))
        ensures
            r.2 == decode_failed(*self, bytes@),
            r.1 == decode_used(*self, bytes@),
            match r.0 { Cow::Borrowed(s) => s@ == decode_text(*self, bytes@) && s@ == utf8_text(bytes@), Cow::Owned(s) => s@ == decode_text(*self, bytes@) },
    { unimplemented!() }
    #[verifier::external_body]
    pub fn name(&self) -> (r: &'static str) { unimplemented!() }
}
/// the bytes read as UTF-8 (meaningful only for well-formed input)
pub uninterp spec fn utf8_text(bytes: Seq<u8>) -> Seq<char>;
// ASSUMED (`unsafe { String::from_utf8_unchecked(bytes) }`): the bytes read as UTF-8, unchecked
#[verifier::external_body]
pub fn from_utf8_unchecked_model(bytes: Vec<u8>) -> (r: String)
    ensures r@ == utf8_text(bytes@),
{ unimplemented!() }
#[verifier::external_type_specification]
#[verifier::external_body]
pub struct ExFromUtf8Error(std::string::FromUtf8Error);
pub uninterp spec fn err_bytes(e: std::string::FromUtf8Error) -> Seq<u8>;
// ASSUMED (alloc): String::from_utf8 gives the bytes read as UTF-8, or hands the bytes back
pub assume_specification [std::string::String::from_utf8] (v: Vec<u8>) -> (r: core::result::Result<String, std::string::FromUtf8Error>)
    ensures
        r matches Ok(s) ==> s@ == utf8_text(v@),
        r matches Err(e) ==> err_bytes(e) == v@;
// ASSUMED (core): <[u8]>::is_ascii - every byte is below 0x80
pub assume_specification [<[u8]>::is_ascii] (s: &[u8]) -> (r: bool)
    ensures r == (forall|i: int| 0 <= i < s@.len() ==> s@[i] < 0x80);
pub assume_specification [std::string::FromUtf8Error::into_bytes] (e: std::string::FromUtf8Error) -> (r: Vec<u8>)
    ensures r@ == err_bytes(e);

//@extract id=DecodeError file=crux_http/src/response/decode.rs item="struct DecodeError"
//@end
/// http_types::Error built from an io::Error (opaque)
#[verifier::external_body]
pub struct Error { _p: u8 }
#[verifier::external_body]
pub fn invalid_data(err: DecodeError) -> (r: Error) { unimplemented!() }
// ASSUMED (String::from / Into<String> for &str, ToString for str)
#[verifier::external_body]
pub fn to_owned_string(s: &str) -> (r: String)
    ensures r@ == s@,
{ unimplemented!() }
pub open spec fn label_of(content_encoding: Option<&str>) -> Seq<u8> {
    match content_encoding { Some(l) => str_bytes(l@), None => str_bytes("utf-8"@) }
}

//@extract id=decode_body file=crux_http/src/response/decode.rs after="cfg\(all\(feature = .encoding., not\(target_arch = .wasm32.\)\)\)" item="fn decode_body" props=C15
//@expect pub fn decode_body(bytes: Vec<u8>, content_encoding: Option<&str>) -> Result<String, Error>
//@sig pub fn decode_body(bytes: Vec<u8>, content_encoding: Option<&str>) -> (r: Result<String, Error>)
//@bind DECODED let \((\w+), \w+, \w+\) = \w+\.decode\(
//@contract
    ensures
        for_label_s(label_of(content_encoding)) is None ==> r is Err, // [C15/decode_body/a-charset-the-decoder-does-not-know-is-an-error-value]
        for_label_s(label_of(content_encoding)) matches Some(e) ==> (r is Err <==> decode_failed(e, bytes@)), // [C15/decode_body/a-malformed-body-is-an-error-value-and-nothing-else-is]
        for_label_s(label_of(content_encoding)) matches Some(e) ==> (r matches Ok(s) ==> s@ == decode_text(e, bytes@)), // [C15/decode_body/the-text-is-exactly-what-a-conforming-decoder-of-the-declared-charset-yields]
//@rule X2.use 2 s/\n\s*use (?:encoding_rs::Encoding|std::borrow::Cow);//
//@rule X7.bytes 1 s/(\w+)\.as_bytes\(\)/as_bytes(\1)/
//@rule X5.unsafe * s/unsafe \{ String::from_utf8_unchecked\((\w+)\) \}/from_utf8_unchecked_model(\1)/
//@rule X5.io-error * s/Err\(io::Error::new\(io::ErrorKind::InvalidData, (\w+)\)\.into\(\)\)/Err(invalid_data(\1))/
//@rule X7.into-string * s/(\w+)\.name\(\)\.into\(\)/to_owned_string(\1.name())/
//@rule X7.to-string * s/content_encoding\.to_string\(\)/to_owned_string(content_encoding)/
//@end

// ------------------------------------------------------------------ which charset: Response::content_type
/// the response as `content_type` sees it
#[verifier::external_body]
pub struct Response { _p: u8 }
#[verifier::external_body]
pub struct HeaderValues { _p: u8 }
#[verifier::external_body]
pub struct HeaderValue { _p: u8 }
#[verifier::external_body]
pub struct Mime { _p: u8 }
pub enum HeaderName { ContentType, Other(u8) }
pub const CONTENT_TYPE: HeaderName = HeaderName::ContentType;
/// what parsing a string as a media type gives (http-types / mime: uninterpreted)
pub uninterp spec fn mime_of(s: Seq<char>) -> Option<Mime>;
// ASSUMED (`s.parse::<Mime>().ok()`)
#[verifier::external_body]
pub fn parse_mime(s: &str) -> (r: Option<Mime>)
    ensures r == mime_of(s@),
{ unimplemented!() }
impl HeaderValue {
    pub uninterp spec fn text(&self) -> Seq<char>;
    #[verifier::external_body]
    pub fn as_str(&self) -> (r: &str)
        ensures r@ == self.text(),
    { unimplemented!() }
}
impl HeaderValues {
    /// the values of the header in the order they were appended (http-types puts the default it
    /// derives from the body first, the values the shell sent after it)
    pub uninterp spec fn vals(&self) -> Seq<HeaderValue>;
    // ASSUMED (http-types): the last value / the first value (HeaderValues derefs to its first value)
    #[verifier::external_body]
    pub fn last(&self) -> (r: &HeaderValue)
        requires self.vals().len() > 0,
        ensures *r == self.vals().last(),
    { unimplemented!() }
    #[verifier::external_body]
    pub fn as_str(&self) -> (r: &str)
        requires self.vals().len() > 0,
        ensures r@ == self.vals()[0].text(),
    { unimplemented!() }
}
impl Response {
    pub uninterp spec fn content_type_values(&self) -> Option<HeaderValues>;
    // ASSUMED (Response::header -> Headers::get): the values stored under that name; a stored header has at least one value
    #[verifier::external_body]
    pub fn header(&self, name: HeaderName) -> (r: Option<&HeaderValues>)
        ensures name is ContentType ==> (match r { Some(v) => self.content_type_values() == Some(*v) && v.vals().len() > 0, None => self.content_type_values() is None }),
    { unimplemented!() }

//@extract id=Response::content_type file=crux_http/src/response/response.rs within="impl<Body> Response<Body>" item="fn content_type" props=C15
//@expect pub fn content_type(&self) -> Option<Mime>
//@sig pub fn content_type(&self) -> (r: Option<Mime>)
//@contract
        ensures
            self.content_type_values() is None ==> r is None,
            self.content_type_values() matches Some(vs) ==> r == mime_of(vs.vals().last().text()), // [C15/Response::content_type/the-declared-content-type-is-the-last-value-the-one-the-shell-sent]
//@rule X7.parse 1 s/\.as_str\(\)\.parse\(\)\.ok\(\)/.as_str().parse_ok()/
//@end
}
/// `s.parse().ok()` for a media type
pub trait ParseOk { fn parse_ok(&self) -> Option<Mime>; }
impl ParseOk for str {
    #[verifier::external_body]
    fn parse_ok(&self) -> (r: Option<Mime>)
        ensures r == mime_of(self@),
    { unimplemented!() }
}

// ------------------------------------------------------------------ Response::body_string: the charset the
// body is decoded with is the `charset` parameter of the declared content type
#[verifier::external_body]
pub struct StatusCode { _p: u8 }
//@extract id=HttpError file=crux_http/src/error.rs item="enum HttpError"
//@rule X7.path 1 s/http_types::StatusCode/StatusCode/
//@end
impl From<Error> for HttpError {
    // ASSUMED (crux_http/src/error.rs: From<http_types::Error>)
    #[verifier::external_body]
    fn from(e: Error) -> (r: HttpError) { unimplemented!() }
}
#[verifier::external_body]
pub struct ParamValue { _p: u8 }
impl ParamValue {
    pub uninterp spec fn text(&self) -> Seq<char>;
    // ASSUMED (Display for ParamValue)
    #[verifier::external_body]
    pub fn to_string(&self) -> (r: String)
        ensures r@ == self.text(),
    { unimplemented!() }
}
impl Mime {
    /// the value of the named parameter of this media type (http-types: uninterpreted)
    pub uninterp spec fn param_s(&self, name: Seq<char>) -> Option<ParamValue>;
    // ASSUMED (http_types::Mime::param)
    #[verifier::external_body]
    pub fn param(&self, name: &str) -> (r: Option<&ParamValue>)
        ensures match r { Some(p) => self.param_s(name@) == Some(*p), None => self.param_s(name@) is None },
    { unimplemented!() }
}
// ASSUMED (core; present only so that a body that inspects the raw header text stays within reach):
// Option::is_some_and calls the predicate on a present value; str::contains is an unspecified test
pub assume_specification<T, F: FnOnce(T) -> bool> [core::option::Option::<T>::is_some_and] (o: Option<T>, f: F) -> (r: bool)
    requires o matches Some(t) ==> call_requires(f, (t,)),
    ensures
        o is None ==> !r,
        o matches Some(t) ==> call_ensures(f, (t,), r);
pub assume_specification<P: core::str::pattern::Pattern> [str::contains] (s: &str, pat: P) -> (r: bool);
// ASSUMED (core): Option<String>::as_deref borrows the text
#[verifier::external_body]
pub fn as_deref_str(o: &Option<String>) -> (r: Option<&str>)
    ensures match r { Some(s) => o matches Some(t) && s@ == t@, None => o is None },
{ unimplemented!() }
/// the charset a response declares: the `charset` parameter of its content type (the last Content-Type value)
pub open spec fn declared_charset(r: Response) -> Option<Seq<char>> {
    match r.content_type_values() {
        None => None,
        Some(vs) => match mime_of(vs.vals().last().text()) {
            None => None,
            Some(m) => match m.param_s("charset"@) { None => None, Some(p) => Some(p.text()) },
        },
    }
}
pub open spec fn label_of_s(cs: Option<Seq<char>>) -> Seq<u8> {
    match cs { Some(l) => str_bytes(l), None => str_bytes("utf-8"@) }
}
impl Response {
    pub uninterp spec fn body_s(&self) -> Option<Vec<u8>>;
    pub uninterp spec fn status_s(&self) -> StatusCode;
    /// all headers and the version (opaque here)
    pub uninterp spec fn headers_and_version_s(&self) -> int;
    // ASSUMED here (proved in unit H on the real body): returns the stored body as it is and takes it; an
    // already-taken body is an error value carrying the status; headers untouched
    #[verifier::external_body]
    pub fn body_bytes(&mut self) -> (r: core::result::Result<Vec<u8>, HttpError>)
        ensures
            old(self).body_s() matches Some(b) ==> r == Ok::<Vec<u8>, HttpError>(b),
            old(self).body_s() is None ==> (r matches Err(HttpError::Http { code, message, body }) && code == old(self).status_s() && body is None),
            final(self).body_s() is None && final(self).status_s() == old(self).status_s() && final(self).content_type_values() == old(self).content_type_values() && final(self).headers_and_version_s() == old(self).headers_and_version_s(),
    { unimplemented!() }
//@extract id=Response::body_string file=crux_http/src/response/response.rs within="impl Response<Vec<u8>>" item="fn body_string" props=C15
//@expect pub fn body_string(&mut self) -> crate::Result<String>
//@sig pub fn body_string(&mut self) -> (r: core::result::Result<String, HttpError>)
//@contract
        ensures
            old(self).body_s() is None ==> (r matches Err(HttpError::Http { code, message, body }) && code == old(self).status_s() && body is None), // [C15/Response::body_string/a-body-already-taken-is-an-error-value-carrying-the-status]
            old(self).body_s() is Some && for_label_s(label_of_s(declared_charset(*old(self)))) is None ==> r is Err, // [C15/Response::body_string/a-declared-charset-the-decoder-does-not-know-is-an-error-value]
            old(self).body_s() is Some && for_label_s(label_of_s(declared_charset(*old(self)))) is Some ==> (r is Err <==> decode_failed(for_label_s(label_of_s(declared_charset(*old(self))))->Some_0, old(self).body_s()->Some_0@)) && (r matches Ok(s) ==> s@ == decode_text(for_label_s(label_of_s(declared_charset(*old(self))))->Some_0, old(self).body_s()->Some_0@)), // [C15/Response::body_string/the-body-is-decoded-with-exactly-the-charset-the-content-type-declares-utf8-when-none]
            final(self).status_s() == old(self).status_s() && final(self).content_type_values() == old(self).content_type_values() && final(self).headers_and_version_s() == old(self).headers_and_version_s(), // [C15/Response::body_string/reading-the-body-leaves-status-headers-version-alone]
//@rule X1.closure-contract 1 closure#\.and_then\(#|$x: &Mime| -> (p: Option<&ParamValue>) ensures match p { Some(v) => $x.param_s("charset"@) == Some(*v), None => $x.param_s("charset"@) is None } // [C15/Response::body_string/the-charset-parameter-of-the-declared-content-type-is-the-one-read]\n#
//@rule X1.closure-contract 1 closure#\.map\(#|$x: &ParamValue| -> (t: String) ensures t@ == $x.text() // [C15/Response::body_string/the-charset-name-is-passed-to-the-decoder-as-it-stands]\n#
//@rule X7.as-deref 1 s/(\w+)\.as_deref\(\)/as_deref_str(&\1)/
//@end
}

} // verus!

fn main() {}
