// Unit N (C05): the order of the host-facing steps of `Stream::poll_next for Command`, extracted
// verbatim from crux_core/src/command/stream.rs on every run. Unit Q proves WHAT poll_next yields;
// this unit proves WHEN the host's waker is registered: before any task of the command runs in that
// poll, on every path - so a wake-up caused by a task that runs in this poll (or by anything after
// it) reaches the host that polled. The callees are ASSUMED calls that log themselves in order.
// Rewrites (counted): X1 contract/signature, X12 pin erasure (Command is Unpin), X6 world threading.
use vstd::prelude::*;

verus! {

pub enum Act {
    /// `self.waker.register(cx.waker())`: the host's waker is stored in the command's AtomicWaker
    Register,
    /// `run_until_settled()`: tasks of the command are polled (they may wake, finish, emit)
    RunTasks,
    TakeEvent,
    TakeEffect,
}

pub open spec fn is_take(a: Act) -> bool { a is TakeEvent || a is TakeEffect }

pub tracked struct NW {
    pub ghost acts: Seq<Act>,
}

pub enum Poll<T> { Ready(T), Pending }
// ASSUMED (core; vstd already specifies Result::map): Result::or - `or` takes its argument BY VALUE (evaluated before the call)
pub assume_specification<T, E, F> [core::result::Result::<T, E>::or] (r: core::result::Result<T, E>, res: core::result::Result<T, F>) -> (out: core::result::Result<T, F>)
    ensures
        r matches Ok(t) ==> out == Ok::<T, F>(t),
        r is Err ==> out == res;
#[verifier::external_body]
pub struct Waker { _p: u8 }
#[verifier::external_body]
pub struct Context<'a> { _p: core::marker::PhantomData<&'a u8> }
impl<'a> Context<'a> {
    #[verifier::external_body]
    pub fn waker(&self) -> (r: &Waker) { unimplemented!() }
}
#[verifier::external_body]
pub struct ArcAtomicWaker { _p: u8 }
impl ArcAtomicWaker {
    // ASSUMED (futures AtomicWaker::register): stores the waker; a later `wake()` wakes it
    #[verifier::external_body]
    pub fn register(&self, Tracked(w): Tracked<&mut NW>, waker: &Waker)
        ensures final(w).acts == old(w).acts.push(Act::Register),
    { unimplemented!() }
}
pub struct TryRecvError;
#[verifier::external_body]
#[verifier::accept_recursive_types(T)]
pub struct Receiver<T> { _p: core::marker::PhantomData<T> }
pub enum Which { Events, Effects }
impl<T> Receiver<T> {
    pub uninterp spec fn which(&self) -> Which;
    // reading the queue's emptiness changes nothing (any answer)
    #[verifier::external_body]
    pub fn is_empty(&self) -> (r: bool) { unimplemented!() }
    // ASSUMED (crossbeam try_recv; its FIFO contract is unit Q's subject)
    #[verifier::external_body]
    pub fn try_recv(&self, Tracked(w): Tracked<&mut NW>) -> (r: Result<T, TryRecvError>)
        ensures
            r is Err ==> final(w).acts == old(w).acts,
            r is Ok ==> final(w).acts == old(w).acts.push(if self.which() is Events { Act::TakeEvent } else { Act::TakeEffect }),
    { unimplemented!() }
}

//@extract id=CommandOutput file=crux_core/src/command/stream.rs item="enum CommandOutput"
//@end

/// the command's task slab, as far as poll_next may look at it (any answer)
#[verifier::external_body]
pub struct TaskSlab { _p: u8 }
impl TaskSlab {
    #[verifier::external_body]
    pub fn is_empty(&self) -> (r: bool) { unimplemented!() }
    #[verifier::external_body]
    pub fn len(&self) -> (r: usize) { unimplemented!() }
}
pub struct Command<Effect, Event> {
    pub tasks: TaskSlab,
    pub waker: ArcAtomicWaker,
    pub events: Receiver<Event>,
    pub effects: Receiver<Effect>,
}

impl<Effect, Event> Command<Effect, Event> {
    pub open spec fn wf(&self) -> bool { self.events.which() is Events && self.effects.which() is Effects }
    // ASSUMED (proved in unit Q): polls the command's tasks until settled
    #[verifier::external_body]
    pub fn run_until_settled(&mut self, Tracked(w): Tracked<&mut NW>)
        ensures final(w).acts == old(w).acts.push(Act::RunTasks), *final(self) == *old(self),
    { unimplemented!() }
    // ASSUMED (proved in unit Q): runs until settled (idempotent), then reads the queues
    #[verifier::external_body]
    pub fn is_done(&mut self, Tracked(w): Tracked<&mut NW>) -> (r: bool)
        ensures final(w).acts == old(w).acts.push(Act::RunTasks), *final(self) == *old(self),
    { unimplemented!() }

//@extract id=Command::poll_next::order file=crux_core/src/command/stream.rs within="impl<Effect, Event> Stream for Command<Effect, Event>" item="fn poll_next" props=C01+C04+C05
//@expect fn poll_next(mut self: Pin<&mut Self>, cx: &mut Context<'_>) -> Poll<Option<Self::Item>>
//@sig pub fn poll_next(&mut self, Tracked(w): Tracked<&mut NW>, cx: &mut Context) -> (r: Poll<Option<CommandOutput<Effect, Event>>>)
//@contract
        requires
            old(self).wf(),
        ensures
            old(w).acts.is_prefix_of(final(w).acts),
            final(w).acts.len() > old(w).acts.len() && final(w).acts[old(w).acts.len() as int] is Register, // [C05/poll_next/the-hosts-waker-is-registered-before-anything-else-happens-in-the-poll]
            final(w).acts.len() > old(w).acts.len() + 1 && final(w).acts[old(w).acts.len() as int + 1] is RunTasks, // [C05/poll_next/the-commands-tasks-run-in-every-poll-right-after-the-registration]
            forall|i: int| old(w).acts.len() < i < final(w).acts.len() ==> !(#[trigger] final(w).acts[i] is Register), // [C05/poll_next/the-waker-is-registered-once-per-poll]
            forall|i: int, j: int| old(w).acts.len() <= i < final(w).acts.len() && old(w).acts.len() <= j < final(w).acts.len() && is_take(#[trigger] final(w).acts[i]) && is_take(#[trigger] final(w).acts[j]) ==> i == j, // [C01+C04+C05/poll_next/at-most-one-item-leaves-the-commands-queues-per-poll]
            (r is Pending || r matches Poll::Ready(None)) ==> forall|i: int| old(w).acts.len() <= i < final(w).acts.len() ==> !is_take(#[trigger] final(w).acts[i]), // [C01+C04+C05/poll_next/nothing-is-taken-from-the-queues-unless-it-is-yielded]
//@rule X12.pin-erasure * s/self\.deref_mut\(\)\.run_until_settled\(\)/self.run_until_settled(Tracked(w))/
//@rule X6.world * s/\.waker\.register\(/.waker.register(Tracked(w), /
//@rule X6.world * s/\.try_recv\(\)/.try_recv(Tracked(w))/
//@rule X6.world * s/self\.is_done\(\)/self.is_done(Tracked(w))/
//@rule X8b.eta * s/\.map\(CommandOutput::(Event|Effect)\)/.map(|v| -> (o: CommandOutput<Effect, Event>) ensures o == CommandOutput::<Effect, Event>::\1(v) { CommandOutput::\1(v) })/
//@end
}

} // verus!

fn main() {}
