// Unit M (C04): the task bodies of the command combinators, extracted verbatim from
// crux_core/src/command/mod.rs on every run. Each combinator is `Command::new(|ctx| async move { .. })`;
// the closure's block is LIFTED (closure=) into a function of what it captures and read under the
// synchronous projection X17 (`.await` erased: the awaited future has run to its end when the next
// statement starts - which for `then` is exactly the sequencing the property states).
// `host` (= `self.map(Ok).forward(CommandSink::new(effects, events))`, a futures adapter chain) is an
// ASSUMED call that logs which stream was hosted into which channels; CommandSink::start_send, which
// does the forwarding, is proved in unit Q.
use vstd::prelude::*;

verus! {

/// identity of a command / stream of outputs
pub struct StreamId { pub id: int }
/// identity of a channel (the role of unit Q)
pub struct ChanId { pub id: int }

pub tracked struct MW {
    /// (stream hosted, effect channel, event channel), in the order the hostings COMPLETED
    pub ghost hosted: Seq<(StreamId, ChanId, ChanId)>,
    /// events sent with ctx.send_event, oldest first
    pub ghost events_sent: Seq<(ChanId, int)>,
    /// notifications sent with ctx.notify_shell
    pub ghost notified: Seq<(ChanId, int)>,
    /// outputs the awaited request / stream of a builder has yielded so far (value identities), oldest first
    pub ghost yielded: Seq<int>,
    /// the builder's stream has ended
    pub ghost ended: bool,
}

pub uninterp spec fn val_id<T>(t: T) -> int;
/// the command a mapped stream takes its outputs from
pub uninterp spec fn source_of(id: StreamId) -> StreamId;

#[verifier::external_body]
#[verifier::accept_recursive_types(T)]
pub struct Sender<T> { _p: core::marker::PhantomData<T> }
impl<T> Sender<T> {
    pub uninterp spec fn role(&self) -> ChanId;
}
impl<T> Clone for Sender<T> {
    // ASSUMED (proved in unit Q: channel::Sender::clone): a clone sends into the same channel
    #[verifier::external_body]
    fn clone(&self) -> (r: Self)
        ensures r.role() == self.role(),
    { unimplemented!() }
}

pub struct CommandContext<Effect, Event> {
    pub effects: Sender<Effect>,
    pub events: Sender<Event>,
}
impl<Effect, Event> CommandContext<Effect, Event> {
    // ASSUMED (proved in unit Q: CommandContext::send_event appends exactly its event)
    #[verifier::external_body]
    pub fn send_event(&self, Tracked(w): Tracked<&mut MW>, event: Event)
        ensures
            final(w).events_sent == old(w).events_sent.push((self.events.role(), val_id(event))),
            final(w).hosted == old(w).hosted, final(w).notified == old(w).notified, final(w).yielded == old(w).yielded, final(w).ended == old(w).ended,
    { unimplemented!() }
    // ASSUMED (Kani unit A: notify_shell sends exactly one effect whose request accepts no resolution)
    #[verifier::external_body]
    pub fn notify_shell<Op>(&self, Tracked(w): Tracked<&mut MW>, operation: Op)
        ensures
            final(w).notified == old(w).notified.push((self.effects.role(), val_id(operation))),
            final(w).hosted == old(w).hosted, final(w).events_sent == old(w).events_sent,
    { unimplemented!() }
}

impl<Effect, Event> Clone for CommandContext<Effect, Event> {
    // ASSUMED (proved in unit Q: CommandContext::clone): the clone sends into the same channels
    #[verifier::external_body]
    fn clone(&self) -> (r: Self)
        ensures r.effects.role() == self.effects.role(), r.events.role() == self.events.role(),
    { unimplemented!() }
}

//@extract id=CommandOutput file=crux_core/src/command/stream.rs item="enum CommandOutput"
//@end

/// the command's task slab / output queues, as far as a combinator can look at them: any answer is possible
#[verifier::external_body]
pub struct TaskSlab { _p: u8 }
impl TaskSlab {
    #[verifier::external_body]
    pub fn is_empty(&self) -> (r: bool) { unimplemented!() }
    #[verifier::external_body]
    pub fn len(&self) -> (r: usize) { unimplemented!() }
}
#[verifier::external_body]
#[verifier::accept_recursive_types(T)]
pub struct Rx<T> { _p: core::marker::PhantomData<T> }
impl<T> Rx<T> {
    #[verifier::external_body]
    pub fn is_empty(&self) -> (r: bool) { unimplemented!() }
    #[verifier::external_body]
    pub fn len(&self) -> (r: usize) { unimplemented!() }
}
#[verifier::external_body]
pub struct CommandRest { _p: u8 }
pub struct Command<Effect, Event> { pub tasks: TaskSlab, pub effects: Rx<Effect>, pub events: Rx<Event>, pub rest: CommandRest }
/// `self.map(f)` (StreamExt::map): the same stream with every output passed through `f`
#[verifier::external_body]
#[verifier::accept_recursive_types(Effect)]
#[verifier::accept_recursive_types(Event)]
#[verifier::accept_recursive_types(F)]
pub struct Mapped<Effect, Event, F> { _p: core::marker::PhantomData<(Effect, Event, F)> }

impl<Effect, Event> Command<Effect, Event> {
    pub uninterp spec fn id(&self) -> StreamId;
    // ASSUMED (command/stream.rs: `self.map(Ok).forward(CommandSink::new(effects, events))`, awaited):
    // every output of this command has been forwarded into exactly these channels and the command
    // has ended (CommandSink::start_send: unit Q)
    #[verifier::external_body]
    pub fn host(self, Tracked(w): Tracked<&mut MW>, effects: Sender<Effect>, events: Sender<Event>)
        ensures
            final(w).hosted == old(w).hosted.push((self.id(), effects.role(), events.role())),
            final(w).events_sent == old(w).events_sent, final(w).notified == old(w).notified,
    { unimplemented!() }
    // ASSUMED (futures StreamExt::map): a stream that yields f(o) for every output o of this command, in order
    #[verifier::external_body]
    pub fn map<E2, V2, F: Fn(CommandOutput<Effect, Event>) -> CommandOutput<E2, V2>>(self, f: F) -> (r: Mapped<E2, V2, F>)
        requires forall|o: CommandOutput<Effect, Event>| call_requires(f, (o,)),
        ensures r.source() == self.id(), r.func() == f,
    { unimplemented!() }
}
impl<Effect, Event, F> Mapped<Effect, Event, F> {
    pub uninterp spec fn source(&self) -> StreamId;
    pub uninterp spec fn func(&self) -> F;
    /// identity of the mapped stream: a function of the source and of the mapping
    pub uninterp spec fn mapped_id(source: StreamId, f: F) -> StreamId;
    // ASSUMED: as Command::host
    #[verifier::external_body]
    pub fn host(self, Tracked(w): Tracked<&mut MW>, effects: Sender<Effect>, events: Sender<Event>)
        ensures
            final(w).hosted == old(w).hosted.push((Self::mapped_id(self.source(), self.func()), effects.role(), events.role())),
            source_of(Self::mapped_id(self.source(), self.func())) == self.source(),
            final(w).events_sent == old(w).events_sent, final(w).notified == old(w).notified,
    { unimplemented!() }
}

// ------------------------------------------------------------------ then
//@extract id=Command::then::task file=crux_core/src/command/mod.rs within="impl<Effect, Event> Command<Effect, Event>" item="fn then" closure="(?:Command|Self)::new\(" props=C04
//@expect |$x| async move
//@sig fn then_task<Effect, Event>(Tracked(w): Tracked<&mut MW>, first: Command<Effect, Event>, other: Command<Effect, Event>, $x: CommandContext<Effect, Event>)
//@contract
    ensures
        final(w).hosted.len() == old(w).hosted.len() + 2 && old(w).hosted.is_prefix_of(final(w).hosted), // [C04/then/both-parts-are-hosted-exactly-once-and-nothing-else]
        final(w).hosted[old(w).hosted.len() as int] == (first.id(), $x.effects.role(), $x.events.role()), // [C04/then/the-first-part-has-completely-finished-before-the-second-starts]
        final(w).hosted[old(w).hosted.len() as int + 1] == (other.id(), $x.effects.role(), $x.events.role()), // [C04/then/the-second-part-feeds-the-same-channels]
        final(w).events_sent == old(w).events_sent && final(w).notified == old(w).notified,
//@rule X19.captured-self * s/\bself\b/first/
//@rule X17.await * s/\s*\.await\b//
//@rule X6.world * s/\.host\(/.host(Tracked(w), /
//@end

// ------------------------------------------------------------------ map_effect / map_event
//@extract id=Command::map_effect::task file=crux_core/src/command/mod.rs within="impl<Effect, Event> Command<Effect, Event>" item="fn map_effect" closure="(?:Command|Self)::new\(" props=C04
//@expect |$x| async move
//@sig fn map_effect_task<Effect, Event, NewEffect, F: Fn(Effect) -> NewEffect>(Tracked(w): Tracked<&mut MW>, this: Command<Effect, Event>, map: F, $x: CommandContext<NewEffect, Event>)
//@contract
    requires
        forall|e: Effect| call_requires(map, (e,)),
    ensures
        final(w).hosted.len() == old(w).hosted.len() + 1 && old(w).hosted.is_prefix_of(final(w).hosted), // [C04/map_effect/the-mapped-command-is-hosted-exactly-once]
        final(w).hosted.last().1 == $x.effects.role() && final(w).hosted.last().2 == $x.events.role(), // [C04/map_effect/into-the-new-commands-own-channels]
        source_of(final(w).hosted.last().0) == this.id(), // [C04/map_effect/what-is-hosted-is-this-commands-own-output-mapped]
        final(w).events_sent == old(w).events_sent && final(w).notified == old(w).notified,
//@rule X19.captured-self * s/\bself\b/this/
//@rule X17.await * s/\s*\.await\b//
//@rule X6.world * s/\.host\(/.host(Tracked(w), /
//@rule X1.closure-contract 1 closure#this\.map\(#|$x: CommandOutput<Effect, Event>| -> (r: CommandOutput<NewEffect, Event>) ensures match $x { CommandOutput::Effect(e) => r matches CommandOutput::Effect(n) && call_ensures(map, (e,), n), CommandOutput::Event(ev) => r == CommandOutput::<NewEffect, Event>::Event(ev) } // [C04/map_effect/every-effect-is-transformed-exactly-once-and-events-pass-unchanged]\n#
//@end

//@extract id=Command::map_event::task file=crux_core/src/command/mod.rs within="impl<Effect, Event> Command<Effect, Event>" item="fn map_event" closure="(?:Command|Self)::new\(" props=C04
//@expect |$x| async move
//@sig fn map_event_task<Effect, Event, NewEvent, F: Fn(Event) -> NewEvent>(Tracked(w): Tracked<&mut MW>, this: Command<Effect, Event>, map: F, $x: CommandContext<Effect, NewEvent>)
//@contract
    requires
        forall|e: Event| call_requires(map, (e,)),
    ensures
        final(w).hosted.len() == old(w).hosted.len() + 1 && old(w).hosted.is_prefix_of(final(w).hosted), // [C04/map_event/the-mapped-command-is-hosted-exactly-once]
        final(w).hosted.last().1 == $x.effects.role() && final(w).hosted.last().2 == $x.events.role(), // [C04/map_event/into-the-new-commands-own-channels]
        source_of(final(w).hosted.last().0) == this.id(), // [C04/map_event/what-is-hosted-is-this-commands-own-output-mapped]
        final(w).events_sent == old(w).events_sent && final(w).notified == old(w).notified,
//@rule X19.captured-self * s/\bself\b/this/
//@rule X17.await * s/\s*\.await\b//
//@rule X6.world * s/\.host\(/.host(Tracked(w), /
//@rule X1.closure-contract 1 closure#this\.map\(#|$x: CommandOutput<Effect, Event>| -> (r: CommandOutput<Effect, NewEvent>) ensures match $x { CommandOutput::Event(e) => r matches CommandOutput::Event(n) && call_ensures(map, (e,), n), CommandOutput::Effect(ef) => r == CommandOutput::<Effect, NewEvent>::Effect(ef) } // [C04/map_event/every-event-is-transformed-exactly-once-and-effects-pass-unchanged]\n#
//@end

// ------------------------------------------------------------------ event
//@extract id=Command::event::task file=crux_core/src/command/mod.rs within="impl<Effect, Event> Command<Effect, Event>" item="fn event" closure="(?:Command|Self)::new\(" props=C04
//@expect |$x| async move
//@sig fn event_task<Effect, Event>(Tracked(w): Tracked<&mut MW>, event: Event, $x: CommandContext<Effect, Event>)
//@contract
    ensures
        final(w).events_sent == old(w).events_sent.push(($x.events.role(), val_id(event))), // [C04/event/exactly-its-single-event]
        final(w).hosted == old(w).hosted && final(w).notified == old(w).notified, // [C04/event/and-nothing-else]
//@rule X6.world * s/\.send_event\(/.send_event(Tracked(w), /
//@end

// ------------------------------------------------------------------ notify
//@extract id=Command::notify_shell::task file=crux_core/src/command/mod.rs within="impl<Effect, Event> Command<Effect, Event>" item="fn notify_shell" closure="NotificationBuilder::new\(" props=C04
//@expect |$x| async move
//@sig fn notify_task<Effect, Event, Op>(Tracked(w): Tracked<&mut MW>, operation: Op, $x: CommandContext<Effect, Event>)
//@contract
    ensures
        final(w).notified == old(w).notified.push(($x.effects.role(), val_id(operation))), // [C04/notify/exactly-its-single-notification]
        final(w).hosted == old(w).hosted && final(w).events_sent == old(w).events_sent, // [C04/notify/and-nothing-else]
//@rule X6.world * s/\.notify_shell\(/.notify_shell(Tracked(w), /
//@end

// ------------------------------------------------------------------ builder chains: then_send
/// command::builder::RequestBuilder / StreamBuilder: a deferred task that talks to the shell (opaque)
#[verifier::external_body]
#[verifier::accept_recursive_types(T)]
pub struct RequestBuilder<T> { _p: core::marker::PhantomData<T> }
#[verifier::external_body]
#[verifier::accept_recursive_types(T)]
pub struct StreamBuilder<T> { _p: core::marker::PhantomData<T> }
#[verifier::external_body]
#[verifier::accept_recursive_types(T)]
pub struct BuilderStream<T> { _p: core::marker::PhantomData<T> }
impl<T> RequestBuilder<T> {
    // ASSUMED (X17: `self.into_future(ctx).await`): the request runs to its end and yields its one output
    #[verifier::external_body]
    pub fn into_future<Effect, Event>(self, Tracked(w): Tracked<&mut MW>, ctx: CommandContext<Effect, Event>) -> (r: T)
        ensures
            final(w).yielded == old(w).yielded.push(val_id(r)),
            final(w).events_sent == old(w).events_sent, final(w).hosted == old(w).hosted, final(w).notified == old(w).notified, final(w).ended == old(w).ended,
    { unimplemented!() }
}
impl<T> StreamBuilder<T> {
    // ASSUMED: building the stream yields nothing yet
    #[verifier::external_body]
    pub fn into_stream<Effect, Event>(self, Tracked(w): Tracked<&mut MW>, ctx: CommandContext<Effect, Event>) -> (r: BuilderStream<T>)
        ensures *final(w) == *old(w),
    { unimplemented!() }
}
impl<T> BuilderStream<T> {
    // ASSUMED (X17: `stream.next().await`): the next output of the stream, or None once it has ended
    #[verifier::external_body]
    pub fn next(&mut self, Tracked(w): Tracked<&mut MW>) -> (r: Option<T>)
        requires !old(w).ended,
        ensures
            match r { Some(o) => final(w).yielded == old(w).yielded.push(val_id(o)) && !final(w).ended, None => final(w).yielded == old(w).yielded && final(w).ended },
            final(w).events_sent == old(w).events_sent, final(w).hosted == old(w).hosted, final(w).notified == old(w).notified,
    { unimplemented!() }
}
/// `pin!(x)`: the same stream, pinned (X12)
pub fn pinned<T>(t: T) -> (r: T)
    ensures r == t,
{ t }
/// the events a then_send chain must have sent for the outputs yielded: one per output, in order
pub open spec fn events_for(role: ChanId, f: spec_fn(int) -> int, outs: Seq<int>) -> Seq<(ChanId, int)> {
    outs.map(|_i: int, o: int| (role, f(o)))
}

//@extract id=RequestBuilder::then_send::task file=crux_core/src/command/builder.rs within="impl<Effect, Event, Task, T> RequestBuilder<Effect, Event, Task>" item="fn then_send" closure="(?:Command|Self)::new\(" props=C04
//@expect |$x| async move
//@sig fn request_then_send_task<Effect, Event, T, E: FnOnce(T) -> Event>(Tracked(w): Tracked<&mut MW>, this: RequestBuilder<T>, event: E, Ghost(f): Ghost<spec_fn(int) -> int>, $x: CommandContext<Effect, Event>)
//@contract
    requires
        forall|o: T| call_requires(event, (o,)),
        forall|o: T, e: Event| call_ensures(event, (o,), e) ==> val_id(e) == f(val_id(o)),
    ensures
        final(w).yielded.len() == old(w).yielded.len() + 1, // [C04/request-then_send/the-request-is-awaited-exactly-once]
        final(w).events_sent == old(w).events_sent.push(($x.events.role(), f(final(w).yielded.last()))), // [C04/request-then_send/its-output-is-fed-to-the-event-constructor-exactly-once-and-exactly-that-event-is-sent]
        final(w).hosted == old(w).hosted && final(w).notified == old(w).notified,
//@rule X19.captured-self * s/\bself\b/this/
//@rule X17.await * s/\s*\.await\b//
//@rule X6.world * s/\.into_future\(/.into_future(Tracked(w), /
//@rule X6.world * s/\.send_event\(/.send_event(Tracked(w), /
//@end

//@extract id=StreamBuilder::then_send::task file=crux_core/src/command/builder.rs within="impl<Effect, Event, Task, T> StreamBuilder<Effect, Event, Task>" item="fn then_send" closure="(?:Command|Self)::new\(" props=C04
//@expect |$x| async move
//@sig fn stream_then_send_task<Effect, Event, T, E: Fn(T) -> Event>(Tracked(w): Tracked<&mut MW>, this: StreamBuilder<T>, event: E, Ghost(f): Ghost<spec_fn(int) -> int>, $x: CommandContext<Effect, Event>)
//@attr #[verifier::exec_allows_no_decreases_clause]
//@contract
    requires
        !old(w).ended,
        forall|o: T| call_requires(event, (o,)),
        forall|o: T, e: Event| call_ensures(event, (o,), e) ==> val_id(e) == f(val_id(o)),
    ensures
        final(w).ended, // [C04/stream-then_send/the-task-ends-only-when-the-stream-has-ended]
        old(w).yielded.is_prefix_of(final(w).yielded),
        final(w).events_sent == old(w).events_sent + events_for($x.events.role(), f, final(w).yielded.subrange(old(w).yielded.len() as int, final(w).yielded.len() as int)), // [C04/stream-then_send/every-output-is-fed-to-the-event-constructor-exactly-once-in-order]
        final(w).hosted == old(w).hosted && final(w).notified == old(w).notified,
//@loops 1
//@loop 1
        invariant_except_break
            !w.ended,
        invariant
            forall|o: T| call_requires(event, (o,)),
            forall|o: T, e: Event| call_ensures(event, (o,), e) ==> val_id(e) == f(val_id(o)),
            old(w).yielded.is_prefix_of(w.yielded),
            w.events_sent == old(w).events_sent + events_for($x.events.role(), f, w.yielded.subrange(old(w).yielded.len() as int, w.yielded.len() as int)), // [C04/stream-then_send/loop/events-sent-so-far-are-exactly-the-outputs-yielded-so-far]
            w.hosted == old(w).hosted && w.notified == old(w).notified,
        ensures
            w.ended,
//@rule X19.captured-self * s/\bself\b/this/
//@rule X17.await * s/\s*\.await\b//
//@rule X12.pin 1 s/\bpin!\(/pinned(/
//@rule X6.world * s/\.into_stream\(/.into_stream(Tracked(w), /
//@rule X6.world * s/\.next\(\)/.next(Tracked(w))/
//@rule X6.world * s/\.send_event\(/.send_event(Tracked(w), /
//@end

// ------------------------------------------------------------------ builder chains: then_request / then_stream / map
// The chains are `futures` adapters. Each adapter is an ASSUMED call that names, by an uninterpreted
// constructor, the documented semantics of that adapter (and of its parameters); the contract of each
// builder names the semantics the PROPERTY asks for. A chain built from other adapters, or from the same
// adapter with another parameter, denotes another stream and fails the obligation.
/// a stream of T / a future of T, by identity
#[verifier::external_body]
#[verifier::accept_recursive_types(T)]
pub struct Strm<T> { _p: core::marker::PhantomData<T> }
#[verifier::external_body]
#[verifier::accept_recursive_types(T)]
pub struct Fut<T> { _p: core::marker::PhantomData<T> }
impl<T> Strm<T> { pub uninterp spec fn id(&self) -> StreamId; }
impl<T> Fut<T> { pub uninterp spec fn id(&self) -> StreamId; }
/// futures' documented semantics, named
/// StreamExt::then: every item, once, in order; the next item is not taken before the stage's future has finished
pub uninterp spec fn each_item_once_in_order_one_at_a_time(src: StreamId) -> StreamId;
/// StreamExt::map: every item passed through the function once, in order
pub uninterp spec fn each_item_mapped_once_in_order(src: StreamId) -> StreamId;
/// StreamExt::buffer_unordered(n): up to n stage futures in flight, outputs in completion order
pub uninterp spec fn stages_in_flight_together_outputs_in_completion_order(src: StreamId, n: int) -> StreamId;
/// StreamExt::flatten_unordered(limit): the inner streams polled concurrently; with a limit, further
/// inner streams are not started while `limit` are open
pub uninterp spec fn inner_streams_merged(src: StreamId, limit: Option<int>) -> StreamId;
/// StreamExt::flat_map / flatten: the inner streams one after another
pub uninterp spec fn inner_streams_one_after_another(src: StreamId) -> StreamId;
/// FutureExt::map / then / into_stream
pub uninterp spec fn output_mapped_once(src: StreamId) -> StreamId;
pub uninterp spec fn then_the_next_future_on_its_output(src: StreamId) -> StreamId;
pub uninterp spec fn the_one_output_as_a_stream(src: StreamId) -> StreamId;
/// the stream / future a builder makes in a context
pub uninterp spec fn task_in(builder: StreamId, effects: ChanId, events: ChanId) -> StreamId;

impl<T> Strm<T> {
    // ASSUMED (futures StreamExt, documented semantics as named above)
    #[verifier::external_body]
    pub fn then<U, X, F: FnMut(T) -> X>(self, f: F) -> (r: Strm<U>)
        requires forall|t: T| call_requires(f, (t,)),
        ensures r.id() == each_item_once_in_order_one_at_a_time(self.id()),
    { unimplemented!() }
    #[verifier::external_body]
    pub fn map<U, F: FnMut(T) -> U>(self, f: F) -> (r: Strm<U>)
        requires forall|t: T| call_requires(f, (t,)),
        ensures r.id() == each_item_mapped_once_in_order(self.id()),
    { unimplemented!() }
    #[verifier::external_body]
    pub fn buffer_unordered<U>(self, n: usize) -> (r: Strm<U>)
        ensures r.id() == stages_in_flight_together_outputs_in_completion_order(self.id(), n as int),
    { unimplemented!() }
    #[verifier::external_body]
    pub fn buffered<U>(self, n: usize) -> (r: Strm<U>)
        ensures r.id() == stages_in_flight_together_outputs_in_completion_order(self.id(), n as int),
    { unimplemented!() }
    #[verifier::external_body]
    pub fn flatten_unordered<U>(self, limit: Limit) -> (r: Strm<U>)
        ensures r.id() == inner_streams_merged(self.id(), limit.0@),
    { unimplemented!() }
    #[verifier::external_body]
    pub fn flat_map<U, S, F: FnMut(T) -> S>(self, f: F) -> (r: Strm<U>)
        requires forall|t: T| call_requires(f, (t,)),
        ensures r.id() == inner_streams_one_after_another(each_item_mapped_once_in_order(self.id())),
    { unimplemented!() }
    #[verifier::external_body]
    pub fn flatten<U>(self) -> (r: Strm<U>)
        ensures r.id() == inner_streams_one_after_another(self.id()),
    { unimplemented!() }
}
/// `impl Into<Option<usize>>` as written at the call site (`None` / a number)
pub struct Limit(pub Ghost<Option<int>>);
pub fn no_limit() -> (r: Limit)
    ensures r.0@ is None,
{ Limit(Ghost(None)) }
pub fn limit_of(n: usize) -> (r: Limit)
    ensures r.0@ == Some(n as int),
{ Limit(Ghost(Some(n as int))) }
impl<T> Fut<T> {
    // ASSUMED (futures FutureExt)
    #[verifier::external_body]
    pub fn map<U, F: FnOnce(T) -> U>(self, f: F) -> (r: Fut<U>)
        requires forall|t: T| call_requires(f, (t,)),
        ensures r.id() == output_mapped_once(self.id()),
    { unimplemented!() }
    #[verifier::external_body]
    pub fn then<U, X, F: FnOnce(T) -> X>(self, f: F) -> (r: Fut<U>)
        requires forall|t: T| call_requires(f, (t,)),
        ensures r.id() == then_the_next_future_on_its_output(self.id()),
    { unimplemented!() }
    #[verifier::external_body]
    pub fn into_stream(self) -> (r: Strm<T>)
        ensures r.id() == the_one_output_as_a_stream(self.id()),
    { unimplemented!() }
}
/// the builders, as values with an identity; `into_future` / `into_stream` make their task in a context
#[verifier::external_body]
#[verifier::accept_recursive_types(T)]
pub struct ReqB<T> { _p: core::marker::PhantomData<T> }
#[verifier::external_body]
#[verifier::accept_recursive_types(T)]
pub struct StrB<T> { _p: core::marker::PhantomData<T> }
impl<T> ReqB<T> {
    pub uninterp spec fn id(&self) -> StreamId;
    // ASSUMED (RequestBuilder::into_future: `make_task(ctx)`)
    #[verifier::external_body]
    pub fn into_future<Effect, Event>(self, ctx: CommandContext<Effect, Event>) -> (r: Fut<T>)
        ensures r.id() == task_in(self.id(), ctx.effects.role(), ctx.events.role()),
    { unimplemented!() }
}
impl<T> StrB<T> {
    pub uninterp spec fn id(&self) -> StreamId;
    // ASSUMED (StreamBuilder::into_stream: `make_stream(ctx)`)
    #[verifier::external_body]
    pub fn into_stream<Effect, Event>(self, ctx: CommandContext<Effect, Event>) -> (r: Strm<T>)
        ensures r.id() == task_in(self.id(), ctx.effects.role(), ctx.events.role()),
    { unimplemented!() }
}

//@extract id=StreamBuilder::then_request::task file=crux_core/src/command/builder.rs within="impl<Effect, Event, Task, T> StreamBuilder<Effect, Event, Task>" item="fn then_request" closure="StreamBuilder::new\(" props=C04
//@expect |$x|
//@sig fn stream_then_request_task<Effect, Event, T, U, F: Fn(T) -> ReqB<U>>(this: StrB<T>, make_next_builder: F, $x: CommandContext<Effect, Event>) -> (r: Strm<U>)
//@contract
    requires forall|t: T| call_requires(make_next_builder, (t,)),
    ensures r.id() == each_item_once_in_order_one_at_a_time(task_in(this.id(), $x.effects.role(), $x.events.role())), // [C04/stream-then_request/each-output-is-fed-to-the-next-stage-exactly-once-in-order-one-at-a-time]
//@rule X19.captured-self * s/\bself\b/this/
//@rule X1.closure-contract * closure#\.then\(#|$x: T| -> (fut: Fut<U>) ensures exists|b: ReqB<U>| call_ensures(make_next_builder, ($x,), b) && fut.id() == task_in(b.id(), ctx_roles.0, ctx_roles.1) // [C04/stream-then_request/the-next-stage-is-the-builder-made-from-that-output-run-in-the-same-context]\n#
//@entry
    let ghost ctx_roles = ($x.effects.role(), $x.events.role());
//@end

//@extract id=StreamBuilder::then_stream::task file=crux_core/src/command/builder.rs within="impl<Effect, Event, Task, T> StreamBuilder<Effect, Event, Task>" item="fn then_stream" closure="StreamBuilder::new\(" props=C04
//@expect move |$x|
//@sig fn stream_then_stream_task<Effect, Event, T, U, F: Fn(T) -> StrB<U>>(this: StrB<T>, make_next_builder: F, $x: CommandContext<Effect, Event>) -> (r: Strm<U>)
//@contract
    requires forall|t: T| call_requires(make_next_builder, (t,)),
    ensures r.id() == inner_streams_merged(each_item_mapped_once_in_order(task_in(this.id(), $x.effects.role(), $x.events.role())), None), // [C04/stream-then_stream/every-output-starts-its-next-stream-and-all-of-them-are-merged-without-a-limit]
//@rule X19.captured-self * s/\bself\b/this/
//@rule X12.pin * s/Box::pin\(/pinned(/
//@rule X7.limit * s/\.flatten_unordered\(None\)/.flatten_unordered(no_limit())/
//@rule X7.limit * s/\.flatten_unordered\((?:Some\()?(\d+)\)?\)/.flatten_unordered(limit_of(\1))/
//@rule X1.closure-contract * closure#\.map\(#|$x: T| -> (s: Strm<U>) ensures exists|b: StrB<U>| call_ensures(make_next_builder, ($x,), b) && s.id() == task_in(b.id(), ctx_roles.0, ctx_roles.1) // [C04/stream-then_stream/the-next-stream-is-the-builder-made-from-that-output-run-in-the-same-context]\n#
//@entry
    let ghost ctx_roles = ($x.effects.role(), $x.events.role());
//@end

//@extract id=StreamBuilder::map::task file=crux_core/src/command/builder.rs within="impl<Effect, Event, Task, T> StreamBuilder<Effect, Event, Task>" item="fn map" closure="StreamBuilder::new\(" props=C04
//@expect |$x|
//@sig fn stream_map_task<Effect, Event, T, U, F: FnMut(T) -> U>(this: StrB<T>, map: F, $x: CommandContext<Effect, Event>) -> (r: Strm<U>)
//@contract
    requires forall|t: T| call_requires(map, (t,)),
    ensures r.id() == each_item_mapped_once_in_order(task_in(this.id(), $x.effects.role(), $x.events.role())), // [C04/stream-map/every-output-is-transformed-exactly-once-in-order]
//@rule X19.captured-self * s/\bself\b/this/
//@end

//@extract id=RequestBuilder::then_request::task file=crux_core/src/command/builder.rs within="impl<Effect, Event, Task, T> RequestBuilder<Effect, Event, Task>" item="fn then_request" closure="RequestBuilder::new\(" props=C04
//@expect |$x|
//@sig fn request_then_request_task<Effect, Event, T, U, F: FnOnce(T) -> ReqB<U>>(this: ReqB<T>, make_next_builder: F, $x: CommandContext<Effect, Event>) -> (r: Fut<U>)
//@contract
    requires forall|t: T| call_requires(make_next_builder, (t,)),
    ensures r.id() == then_the_next_future_on_its_output(task_in(this.id(), $x.effects.role(), $x.events.role())), // [C04/request-then_request/the-output-is-fed-to-the-next-stage-exactly-once-after-the-first-has-finished]
//@rule X19.captured-self * s/\bself\b/this/
//@rule X1.closure-contract * closure#\.then\(#|$x: T| -> (fut: Fut<U>) ensures exists|b: ReqB<U>| call_ensures(make_next_builder, ($x,), b) && fut.id() == task_in(b.id(), ctx_roles.0, ctx_roles.1) // [C04/request-then_request/the-next-stage-is-the-builder-made-from-that-output-run-in-the-same-context]\n#
//@entry
    let ghost ctx_roles = ($x.effects.role(), $x.events.role());
//@end

//@extract id=RequestBuilder::then_stream::task file=crux_core/src/command/builder.rs within="impl<Effect, Event, Task, T> RequestBuilder<Effect, Event, Task>" item="fn then_stream" closure="StreamBuilder::new\(" props=C04
//@expect |$x|
//@sig fn request_then_stream_task<Effect, Event, T, U, F: FnOnce(T) -> StrB<U>>(this: ReqB<T>, make_next_builder: F, $x: CommandContext<Effect, Event>) -> (r: Strm<U>)
//@contract
    requires forall|t: T| call_requires(make_next_builder, (t,)),
    ensures r.id() == inner_streams_one_after_another(each_item_mapped_once_in_order(the_one_output_as_a_stream(output_mapped_once(task_in(this.id(), $x.effects.role(), $x.events.role()))))), // [C04/request-then_stream/the-one-output-makes-the-next-builder-whose-stream-is-then-followed]
//@rule X19.captured-self * s/\bself\b/this/
//@rule X1.closure-contract * closure#\.flat_map\(#|$x: StrB<U>| -> (s: Strm<U>) ensures s.id() == task_in($x.id(), ctx_roles.0, ctx_roles.1) // [C04/request-then_stream/the-next-stream-runs-in-the-same-context]\n#
//@entry
    let ghost ctx_roles = ($x.effects.role(), $x.events.role());
//@end

//@extract id=RequestBuilder::map::task file=crux_core/src/command/builder.rs within="impl<Effect, Event, Task, T> RequestBuilder<Effect, Event, Task>" item="fn map" closure="RequestBuilder::new\(" props=C04
//@expect |$x|
//@sig fn request_map_task<Effect, Event, T, U, F: FnOnce(T) -> U>(this: ReqB<T>, map: F, $x: CommandContext<Effect, Event>) -> (r: Fut<U>)
//@contract
    requires forall|t: T| call_requires(map, (t,)),
    ensures r.id() == output_mapped_once(task_in(this.id(), $x.effects.role(), $x.events.role())), // [C04/request-map/the-output-is-transformed-exactly-once]
//@rule X19.captured-self * s/\bself\b/this/
//@end

// ------------------------------------------------------------------ the combinators themselves: one new command, one task
/// what the main task of a command built by a combinator does (its body is proved above)
pub enum TaskBody { Then(StreamId, StreamId), MapEffect(StreamId), MapEvent(StreamId), Event(int), Other }
#[verifier::external_body]
pub fn then_body<Effect, Event>(first: Command<Effect, Event>, second: Command<Effect, Event>) -> (r: Ghost<TaskBody>)
    ensures r@ == TaskBody::Then(first.id(), second.id()),
{ unimplemented!() }
#[verifier::external_body]
pub fn map_effect_body<Effect, Event, F>(this: Command<Effect, Event>, map: F) -> (r: Ghost<TaskBody>)
    ensures r@ == TaskBody::MapEffect(this.id()),
{ unimplemented!() }
#[verifier::external_body]
pub fn map_event_body<Effect, Event, F>(this: Command<Effect, Event>, map: F) -> (r: Ghost<TaskBody>)
    ensures r@ == TaskBody::MapEvent(this.id()),
{ unimplemented!() }
#[verifier::external_body]
pub fn event_body<Event>(event: Event) -> (r: Ghost<TaskBody>)
    ensures r@ == TaskBody::Event(val_id(event)),
{ unimplemented!() }

impl<Effect, Event> Command<Effect, Event> {
    /// the body of the command's main task, for a command built by `Command::new`
    pub uninterp spec fn main_task(&self) -> TaskBody;
    // ASSUMED (proved in unit Q: Command::new holds exactly the main task, made ready once): X17 - the
    // closure handed to Command::new is named by what it captures
    #[verifier::external_body]
    pub fn new_task(t: Ghost<TaskBody>) -> (r: Self)
        ensures r.main_task() == t@,
    { unimplemented!() }

//@extract id=Command::then file=crux_core/src/command/mod.rs within="impl<Effect, Event> Command<Effect, Event>" item="fn then" props=C04
//@expect pub fn then(self, other: Self) -> Self where Effect: Unpin, Event: Unpin,
//@sig pub fn then(self, other: Self) -> (r: Self)
//@contract
        ensures r.main_task() == TaskBody::Then(self.id(), other.id()), // [C04/then/the-result-is-a-new-command-whose-one-task-hosts-both-parts-whatever-state-they-are-in]
//@rule X17.task-closure 1 block#(?:Command|Self)::new\(\|\w+\| async move #Command::new_task(then_body(self, other)#
//@end

//@extract id=Command::map_effect file=crux_core/src/command/mod.rs within="impl<Effect, Event> Command<Effect, Event>" item="fn map_effect" props=C04
//@expect pub fn map_effect<F, NewEffect>(self, map: F) -> Command<NewEffect, Event> where F: Fn(Effect) -> NewEffect + Send + Sync + 'static, NewEffect: Send + Unpin + 'static, Effect: Unpin, Event: Unpin,
//@sig pub fn map_effect<F, NewEffect>(self, map: F) -> (r: Command<NewEffect, Event>) where F: Fn(Effect) -> NewEffect
//@contract
        ensures r.main_task() == TaskBody::MapEffect(self.id()), // [C04/map_effect/the-result-is-a-new-command-whose-one-task-hosts-this-command-mapped]
//@rule X17.task-closure 1 block#(?:Command|Self)::new\(\|\w+\| async move #Command::new_task(map_effect_body(self, map)#
//@end

//@extract id=Command::map_event file=crux_core/src/command/mod.rs within="impl<Effect, Event> Command<Effect, Event>" item="fn map_event" props=C04
//@expect pub fn map_event<F, NewEvent>(self, map: F) -> Command<Effect, NewEvent> where F: Fn(Event) -> NewEvent + Send + Sync + 'static, NewEvent: Send + Unpin + 'static, Effect: Unpin, Event: Unpin,
//@sig pub fn map_event<F, NewEvent>(self, map: F) -> (r: Command<Effect, NewEvent>) where F: Fn(Event) -> NewEvent
//@contract
        ensures r.main_task() == TaskBody::MapEvent(self.id()), // [C04/map_event/the-result-is-a-new-command-whose-one-task-hosts-this-command-mapped]
//@rule X17.task-closure 1 block#(?:Command|Self)::new\(\|\w+\| async move #Command::new_task(map_event_body(self, map)#
//@end

//@extract id=Command::event file=crux_core/src/command/mod.rs within="impl<Effect, Event> Command<Effect, Event>" item="fn event" props=C04
//@expect pub fn event(event: Event) -> Self
//@sig pub fn event(event: Event) -> (r: Self)
//@contract
        ensures r.main_task() == TaskBody::Event(val_id(event)), // [C04/event/the-result-is-a-new-command-whose-one-task-sends-exactly-this-event]
//@rule X17.task-closure 1 block#(?:Command|Self)::new\(\|\w+\| async move #Command::new_task(event_body(event)#
//@end
}

} // verus!

fn main() {}
