// Unit P (C18): the command-API timers of crux_time/src/command.rs - the task bodies of
// `Time::notify_after` / `Time::notify_at` (lifted out of `RequestBuilder::new(move |ctx| ..)`),
// `TimerHandle::clear`, and `get_timer_id` of crux_time/src/lib.rs - extracted verbatim on every run.
// Projection (X17 + X20): `.await` erased; `select_biased! { response = REQ.fuse() => A, cleared = receiver => B }`
// is read as `match select2(REQ, receiver) { Shell(response) => A, Cleared(cleared) => B }`, where
// `select2` is an ASSUMED call: polling the select sends REQ to the shell (its future is polled first),
// and which arm completes is a PROPHECY of the environment (`answer_waiting`, `cleared_pending`), with
// the bias as its only constraint: an answer already waiting wins. The arms' bodies, the early-clear
// test and every request built are the real text.
use vstd::prelude::*;

verus! {

pub tracked struct TW {
    /// requests this timer's task has handed to the shell, oldest first
    pub ghost emitted: Seq<TimeRequest>,
    /// the shell's answers to them
    pub ghost answers: Seq<TimeResponse>,
    /// the id the timer's handle sends when the app clears it (TimerHandle::clear: its own id)
    pub ghost handle_id: TimerId,
    /// the app cleared the handle before the task first ran
    pub ghost cleared_early: bool,
    /// prophecy: the app clears the handle while the timer's request is pending
    pub ghost cleared_pending: bool,
    /// prophecy: the shell's answer is already waiting when the select is polled
    pub ghost answer_waiting: bool,
    /// process-wide timer-id counter and the ids handed out so far
    pub ghost counter: nat,
    pub ghost issued: Set<TimerId>,
    /// ids sent into clear channels by TimerHandle::clear
    pub ghost clear_sent: Seq<TimerId>,
}

//@extract id=TimerId file=crux_time/src/protocol/mod.rs item="struct TimerId"
//@contract
#[derive(Copy, Clone, PartialEq, Eq, Structural)]
//@end
//@extract id=Instant file=crux_time/src/protocol/instant.rs item="struct Instant"
//@contract
#[derive(Copy, Clone)]
//@end
//@extract id=Duration file=crux_time/src/protocol/duration.rs item="struct Duration"
//@contract
#[derive(Copy, Clone)]
//@end
//@extract id=TimeRequest file=crux_time/src/protocol/mod.rs item="enum TimeRequest"
//@end
//@extract id=TimeResponse file=crux_time/src/protocol/mod.rs item="enum TimeResponse"
//@end
//@extract id=TimerOutcome file=crux_time/src/command.rs item="enum TimerOutcome"
//@end
//@extract id=CompletedTimerHandle file=crux_time/src/command.rs item="struct CompletedTimerHandle"
//@rule X2.vis * s/\n(\s+)(timer_id):/\n\1pub \2:/
//@end

/// std::time::Duration / SystemTime as the app gave them (opaque); their conversions are unit T's subject
#[verifier::external_body]
pub struct StdDuration { _p: u8 }
#[verifier::external_body]
pub struct SystemTime { _p: u8 }
impl SystemTime {
    // the wall clock (any answer): present so that a body that consults it stays within reach
    #[verifier::external_body]
    pub fn now() -> (r: SystemTime) { unimplemented!() }
}
impl PartialEq for SystemTime {
    #[verifier::external_body]
    fn eq(&self, other: &Self) -> (r: bool) { unimplemented!() }
}
impl PartialOrd for SystemTime {
    #[verifier::external_body]
    fn partial_cmp(&self, other: &Self) -> (r: Option<core::cmp::Ordering>) { unimplemented!() }
}
pub uninterp spec fn wire_duration_s(d: StdDuration) -> Duration;
pub uninterp spec fn wire_instant_s(t: SystemTime) -> Instant;
// ASSUMED (proved in unit T: From<std::time::Duration> for Duration, From<SystemTime> for Instant)
#[verifier::external_body]
pub fn wire_duration(d: StdDuration) -> (r: Duration)
    ensures r == wire_duration_s(d),
{ unimplemented!() }
#[verifier::external_body]
pub fn wire_instant(t: SystemTime) -> (r: Instant)
    ensures r == wire_instant_s(t),
{ unimplemented!() }

/// the shell answers a timer request in kind and for the same timer (otherwise the real code panics
/// explicitly: "Unexpected response ..") - ASSUMED about the shell
pub open spec fn in_kind(op: TimeRequest, r: TimeResponse) -> bool {
    match op {
        TimeRequest::Now => r is Now,
        TimeRequest::NotifyAt { id, .. } => r == (TimeResponse::InstantArrived { id }),
        TimeRequest::NotifyAfter { id, .. } => r == (TimeResponse::DurationElapsed { id }),
        TimeRequest::Clear { id } => r == (TimeResponse::Cleared { id }),
    }
}

/// futures::channel::oneshot::Canceled
#[derive(PartialEq, Eq, Structural, Clone, Copy)]
pub struct Canceled;
impl core::fmt::Debug for Canceled {
    #[verifier::external_body]
    fn fmt(&self, f: &mut core::fmt::Formatter<'_>) -> core::fmt::Result { unimplemented!() }
}
/// the receiving end of the timer's clear channel
#[verifier::external_body]
pub struct ClearReceiver { _p: u8 }
impl ClearReceiver {
    // ASSUMED (futures oneshot::Receiver::try_recv): the id the handle sent, if it has been cleared already
    #[verifier::external_body]
    pub fn try_recv(&mut self, Tracked(w): Tracked<&mut TW>) -> (r: Result<Option<TimerId>, Canceled>)
        ensures
            *final(w) == *old(w),
            old(w).cleared_early ==> r == Ok::<Option<TimerId>, Canceled>(Some(old(w).handle_id)),
            !old(w).cleared_early ==> !(r matches Ok(Some(_))),
    { unimplemented!() }
}
/// the sending end, inside the TimerHandle
#[verifier::external_body]
pub struct ClearSender { _p: u8 }
impl ClearSender {
    // ASSUMED (futures oneshot::Sender::send): consumes the sender; the value is what the receiver gets
    #[verifier::external_body]
    pub fn send(self, Tracked(w): Tracked<&mut TW>, id: TimerId) -> (r: Result<(), TimerId>)
        ensures *final(w) == (TW { clear_sent: old(w).clear_sent.push(id), ..*old(w) }),
    { unimplemented!() }
}

/// crux_core::command::CommandContext (opaque)
#[verifier::external_body]
pub struct Ctx { _p: u8 }
impl Ctx {
    // ASSUMED (`ctx.request_from_shell(op).await`; constructor proved in unit X): hands exactly this
    // request to the shell once and yields the shell's answer, in kind
    #[verifier::external_body]
    pub fn request_from_shell(&self, Tracked(w): Tracked<&mut TW>, op: TimeRequest) -> (r: TimeResponse)
        ensures
            *final(w) == (TW { emitted: old(w).emitted.push(op), answers: old(w).answers.push(r), ..*old(w) }),
            in_kind(op, r),
    { unimplemented!() }
}
pub enum Sel { Shell(TimeResponse), Cleared(Result<TimerId, Canceled>) }
/// which arm a biased select polls first (None: plain `select!`, random order)
pub enum Bias { ShellFirst, ClearFirst, Unbiased }
// ASSUMED (futures select_biased! over the fused request future and the clear receiver, awaited): polling
// it sends the request; which arm completes is the environment's choice, except that - for select_biased!
// only; plain select! polls in a random order - an answer already waiting wins (bias) and the clear arm completes only if the app cleared the handle (a dropped handle
// terminates the fused receiver and is never selected)
#[verifier::external_body]
pub fn select2(Tracked(w): Tracked<&mut TW>, bias: Bias, ctx: &Ctx, op: TimeRequest, receiver: &mut ClearReceiver) -> (r: Sel)
    ensures
        final(w).emitted == old(w).emitted.push(op),
        r matches Sel::Shell(resp) ==> in_kind(op, resp) && *final(w) == (TW { emitted: final(w).emitted, answers: old(w).answers.push(resp), ..*old(w) }),
        r matches Sel::Cleared(c) ==> c == Ok::<TimerId, Canceled>(old(w).handle_id) && old(w).cleared_pending && (bias is ShellFirst ==> !old(w).answer_waiting) && *final(w) == (TW { emitted: final(w).emitted, ..*old(w) }),
{ unimplemented!() }

// ------------------------------------------------------------------ notify_after
//@extract id=notify_after::task file=crux_time/src/command.rs within="impl<Effect, Event> Time<Effect, Event>" item="fn notify_after" closure="RequestBuilder::new\(" props=C18
//@expect move |$x| async move
//@sig fn notify_after_task(Tracked(w): Tracked<&mut TW>, timer_id: TimerId, duration: StdDuration, completed_handle: CompletedTimerHandle, receiver: ClearReceiver, $x: Ctx) -> (r: TimerOutcome)
//@contract
    requires
        old(w).handle_id == timer_id,
        completed_handle.timer_id == timer_id,
    ensures
        old(w).cleared_early ==> r is Cleared && *final(w) == *old(w), // [C18/notify_after/a-timer-cleared-before-it-was-ever-requested-sends-nothing-to-the-shell]
        !old(w).cleared_early ==> final(w).emitted.len() > old(w).emitted.len() && final(w).emitted[old(w).emitted.len() as int] == (TimeRequest::NotifyAfter { id: timer_id, duration: wire_duration_s(duration) }), // [C18/notify_after/the-shell-is-asked-for-exactly-this-timer-and-duration]
        r matches TimerOutcome::Completed(h) ==> h.timer_id == timer_id && final(w).emitted.len() == old(w).emitted.len() + 1 && final(w).answers == old(w).answers.push(TimeResponse::DurationElapsed { id: timer_id }), // [C18/notify_after/completed-only-if-the-shell-answered-its-request-and-no-clear-is-sent]
        r is Cleared ==> old(w).cleared_early || old(w).cleared_pending, // [C18/notify_after/cleared-only-if-the-app-cleared-it]
        r is Cleared && !old(w).cleared_early ==> final(w).emitted == old(w).emitted.push(TimeRequest::NotifyAfter { id: timer_id, duration: wire_duration_s(duration) }).push(TimeRequest::Clear { id: timer_id }) && final(w).answers == old(w).answers.push(TimeResponse::Cleared { id: timer_id }), // [C18/notify_after/cleared-while-pending-sends-exactly-one-clear-request-for-its-id-and-reports-cleared-once-answered]
        !old(w).cleared_early && old(w).answer_waiting ==> r is Completed, // [C18/notify_after/an-answer-already-waiting-wins-over-a-clear]
//@rule X20.select-clear-first * s~select_biased!\s*\{(?:\s*//[^\n]*)*(\n[ \t]*)(\w+)\s*=\s*receiver\s*=>\s*\{((?:.|\n)*?)\1\}\s*,?\s*(\w+)\s*=\s*(\w+)\.request_from_shell\(\s*((?:.|\n)*?)\s*\)\.fuse\(\)\s*=>\s*\{~match select2(Tracked(w), Bias::ClearFirst, &\5, \6, &mut receiver) {\1Sel::Cleared(\2) => {\3\1}\1Sel::Shell(\4) => {~
//@rule X20.select-biased * s~select_biased!\s*\{(?:\s*//[^\n]*)*\s*(\w+)\s*=\s*(\w+)\.request_from_shell\(\s*((?:.|\n)*?)\s*\)\.fuse\(\)\s*=>\s*\{~match select2(Tracked(w), Bias::ShellFirst, &\2, \3, &mut receiver) { Sel::Shell(\1) => {~
//@rule X20.select-unbiased * s~select!\s*\{(?:\s*//[^\n]*)*\s*(\w+)\s*=\s*(\w+)\.request_from_shell\(\s*((?:.|\n)*?)\s*\)\.fuse\(\)\s*=>\s*\{~match select2(Tracked(w), Bias::Unbiased, &\2, \3, &mut receiver) { Sel::Shell(\1) => {~
//@rule X20.select * s~(\w+)\s*=\s*receiver\s*=>\s*\{~Sel::Cleared(\1) => {~
//@rule X17.await * s/\s*\.await\b//
//@rule X6.world * s/receiver\.try_recv\(\)/receiver.try_recv(Tracked(w))/
//@rule X6.world * s/(\w+)\.request_from_shell\(TimeRequest::Clear/\1.request_from_shell(Tracked(w), TimeRequest::Clear/
//@rule X7.into 1 s/duration\.into\(\)/wire_duration(duration)/
//@entry
    let mut receiver = receiver;
//@end

// ------------------------------------------------------------------ notify_at
//@extract id=notify_at::task file=crux_time/src/command.rs within="impl<Effect, Event> Time<Effect, Event>" item="fn notify_at" closure="RequestBuilder::new\(" props=C18
//@expect move |$x|
//@sig fn notify_at_task(Tracked(w): Tracked<&mut TW>, timer_id: TimerId, system_time: SystemTime, completed_handle: CompletedTimerHandle, receiver: ClearReceiver, $x: Ctx) -> (r: TimerOutcome)
//@contract
    requires
        old(w).handle_id == timer_id,
        completed_handle.timer_id == timer_id,
    ensures
        old(w).cleared_early ==> r is Cleared && *final(w) == *old(w), // [C18/notify_at/a-timer-cleared-before-it-was-ever-requested-sends-nothing-to-the-shell]
        !old(w).cleared_early ==> final(w).emitted.len() > old(w).emitted.len() && final(w).emitted[old(w).emitted.len() as int] == (TimeRequest::NotifyAt { id: timer_id, instant: wire_instant_s(system_time) }), // [C18/notify_at/the-shell-is-asked-for-exactly-this-timer-and-instant]
        r matches TimerOutcome::Completed(h) ==> h.timer_id == timer_id && final(w).emitted.len() == old(w).emitted.len() + 1 && final(w).answers == old(w).answers.push(TimeResponse::InstantArrived { id: timer_id }), // [C18/notify_at/completed-only-if-the-shell-answered-its-request-and-no-clear-is-sent]
        r is Cleared ==> old(w).cleared_early || old(w).cleared_pending, // [C18/notify_at/cleared-only-if-the-app-cleared-it]
        r is Cleared && !old(w).cleared_early ==> final(w).emitted == old(w).emitted.push(TimeRequest::NotifyAt { id: timer_id, instant: wire_instant_s(system_time) }).push(TimeRequest::Clear { id: timer_id }) && final(w).answers == old(w).answers.push(TimeResponse::Cleared { id: timer_id }), // [C18/notify_at/cleared-while-pending-sends-exactly-one-clear-request-for-its-id-and-reports-cleared-once-answered]
        !old(w).cleared_early && old(w).answer_waiting ==> r is Completed, // [C18/notify_at/an-answer-already-waiting-wins-over-a-clear]
//@rule X17.async-block 1 s/async move \{/{/
//@rule X20.select-clear-first * s~select_biased!\s*\{(?:\s*//[^\n]*)*(\n[ \t]*)(\w+)\s*=\s*receiver\s*=>\s*\{((?:.|\n)*?)\1\}\s*,?\s*(\w+)\s*=\s*(\w+)\.request_from_shell\(\s*((?:.|\n)*?)\s*\)\.fuse\(\)\s*=>\s*\{~match select2(Tracked(w), Bias::ClearFirst, &\5, \6, &mut receiver) {\1Sel::Cleared(\2) => {\3\1}\1Sel::Shell(\4) => {~
//@rule X20.select-biased * s~select_biased!\s*\{(?:\s*//[^\n]*)*\s*(\w+)\s*=\s*(\w+)\.request_from_shell\(\s*((?:.|\n)*?)\s*\)\.fuse\(\)\s*=>\s*\{~match select2(Tracked(w), Bias::ShellFirst, &\2, \3, &mut receiver) { Sel::Shell(\1) => {~
//@rule X20.select-unbiased * s~select!\s*\{(?:\s*//[^\n]*)*\s*(\w+)\s*=\s*(\w+)\.request_from_shell\(\s*((?:.|\n)*?)\s*\)\.fuse\(\)\s*=>\s*\{~match select2(Tracked(w), Bias::Unbiased, &\2, \3, &mut receiver) { Sel::Shell(\1) => {~
//@rule X20.select * s~(\w+)\s*=\s*receiver\s*=>\s*\{~Sel::Cleared(\1) => {~
//@rule X17.await * s/\s*\.await\b//
//@rule X6.world * s/receiver\.try_recv\(\)/receiver.try_recv(Tracked(w))/
//@rule X6.world * s/(\w+)\.request_from_shell\(TimeRequest::Clear/\1.request_from_shell(Tracked(w), TimeRequest::Clear/
//@rule X7.into 1 s/system_time\.into\(\)/wire_instant(system_time)/
//@entry
    let mut receiver = receiver;
//@end

// ------------------------------------------------------------------ the handle
//@extract id=TimerHandle file=crux_time/src/command.rs item="struct TimerHandle"
//@rule X5.sender 1 s/Sender<TimerId>/ClearSender/
//@rule X2.vis * s/\n(\s+)(timer_id|abort):/\n\1pub \2:/
//@end
impl TimerHandle {
//@extract id=TimerHandle::clear file=crux_time/src/command.rs within="impl TimerHandle" item="fn clear" props=C18
//@expect pub fn clear(self)
//@sig pub fn clear(self, Tracked(w): Tracked<&mut TW>)
//@contract
        ensures *final(w) == (TW { clear_sent: old(w).clear_sent.push(self.timer_id), ..*old(w) }), // [C18/TimerHandle::clear/sends-exactly-its-own-timers-id-once]
//@rule X6.world 1 s/\.send\(/.send(Tracked(w), /
//@end
}

// ------------------------------------------------------------------ ids
/// `static COUNTER: AtomicUsize`, seen sequentially (C08 is not claimed)
// ASSUMED (AtomicUsize::fetch_add, wrapping): returns the old value and adds
#[verifier::external_body]
pub fn counter_fetch_add(Tracked(w): Tracked<&mut TW>, n: usize) -> (r: usize)
    requires old(w).counter + n <= usize::MAX,
    ensures r == old(w).counter, *final(w) == (TW { counter: (old(w).counter + n) as nat, ..*old(w) }),
{ unimplemented!() }
/// every id handed out so far is below the counter
pub open spec fn ids_wf(w: TW) -> bool { forall|t: TimerId| #[trigger] w.issued.contains(t) ==> t.0 < w.counter }

//@extract id=get_timer_id file=crux_time/src/lib.rs item="fn get_timer_id" props=C18
//@expect fn get_timer_id() -> TimerId
//@sig fn get_timer_id_inner(Tracked(w): Tracked<&mut TW>) -> (r: TimerId)
//@contract
    requires
        old(w).counter < usize::MAX, // (after 2^64 - 1 timers the counter wraps: stated, not decided)
    ensures
        r.0 == old(w).counter && final(w).counter == old(w).counter + 1, // [C18/get_timer_id/the-id-is-the-counters-value-and-the-counter-moves-on]
        *final(w) == (TW { counter: final(w).counter, ..*old(w) }),
//@rule X4.static 1 s/static COUNTER: AtomicUsize = AtomicUsize::new\(1\);//
//@rule X6.world 1 s/COUNTER\.fetch_add\(1, Ordering::Relaxed\)/counter_fetch_add(Tracked(w), 1)/
//@end

/// what a caller of get_timer_id sees: an id no timer of the process has (ghost bookkeeping of `issued`)
fn get_timer_id(Tracked(w): Tracked<&mut TW>) -> (r: TimerId)
    requires
        old(w).counter < usize::MAX,
        ids_wf(*old(w)),
    ensures
        !old(w).issued.contains(r), // [C18/get_timer_id/every-timer-gets-an-id-no-other-timer-in-the-process-has]
        final(w).issued == old(w).issued.insert(r),
        ids_wf(*final(w)),
{
    let r = get_timer_id_inner(Tracked(w));
    proof { w.issued = w.issued.insert(r); }
    r
}

// ------------------------------------------------------------------ the constructors: one fresh id shared by task and handle
/// the request builder a timer constructor returns, named by what its task closure captures (the
/// task's body is proved above)
#[verifier::external_body]
pub struct TimerBuilder { _p: u8 }
impl TimerBuilder {
    pub uninterp spec fn task_timer_id(&self) -> TimerId;
    pub uninterp spec fn completed_id(&self) -> TimerId;
    // X17: `RequestBuilder::new(move |ctx| async move { .. })` with the closure named by its captures
    #[verifier::external_body]
    pub fn named(timer_id: TimerId, completed_handle: CompletedTimerHandle, receiver: ClearReceiver) -> (r: Self)
        ensures r.task_timer_id() == timer_id, r.completed_id() == completed_handle.timer_id,
    { unimplemented!() }
}
// ASSUMED (futures oneshot::channel): a fresh channel
#[verifier::external_body]
pub fn clear_channel() -> (r: (ClearSender, ClearReceiver)) { unimplemented!() }

//@extract id=notify_after file=crux_time/src/command.rs within="impl<Effect, Event> Time<Effect, Event>" item="fn notify_after" props=C18
//@expect pub fn notify_after( duration: Duration, ) -> ( RequestBuilder<Effect, Event, impl Future<Output = TimerOutcome>>, TimerHandle, )
//@sig fn notify_after(Tracked(w): Tracked<&mut TW>, duration: StdDuration) -> (r: (TimerBuilder, TimerHandle))
//@contract
    requires
        old(w).counter < usize::MAX,
        ids_wf(*old(w)),
    ensures
        !old(w).issued.contains(r.1.timer_id) && final(w).issued == old(w).issued.insert(r.1.timer_id) && ids_wf(*final(w)), // [C18/notify_after/the-timer-gets-an-id-no-other-timer-in-the-process-has]
        r.0.task_timer_id() == r.1.timer_id && r.0.completed_id() == r.1.timer_id, // [C18/notify_after/task-handle-and-completed-handle-share-that-one-id]
//@rule X6.world 1 s/get_timer_id\(\)/get_timer_id(Tracked(w))/
//@rule X5.channel 1 s/oneshot::channel\(\)/clear_channel()/
//@rule X17.task-closure 1 block#RequestBuilder::new\(move \|\w+\| (?:async move )?#TimerBuilder::named(timer_id, completed_handle, receiver#
//@end

//@extract id=notify_at file=crux_time/src/command.rs within="impl<Effect, Event> Time<Effect, Event>" item="fn notify_at" props=C18
//@expect pub fn notify_at( system_time: SystemTime, ) -> ( RequestBuilder<Effect, Event, impl Future<Output = TimerOutcome>>, TimerHandle, )
//@sig fn notify_at(Tracked(w): Tracked<&mut TW>, system_time: SystemTime) -> (r: (TimerBuilder, TimerHandle))
//@contract
    requires
        old(w).counter < usize::MAX,
        ids_wf(*old(w)),
    ensures
        !old(w).issued.contains(r.1.timer_id) && final(w).issued == old(w).issued.insert(r.1.timer_id) && ids_wf(*final(w)), // [C18/notify_at/the-timer-gets-an-id-no-other-timer-in-the-process-has]
        r.0.task_timer_id() == r.1.timer_id && r.0.completed_id() == r.1.timer_id, // [C18/notify_at/task-handle-and-completed-handle-share-that-one-id]
//@rule X6.world 1 s/get_timer_id\(\)/get_timer_id(Tracked(w))/
//@rule X5.channel 1 s/oneshot::channel\(\)/clear_channel()/
//@rule X17.task-closure 1 block#RequestBuilder::new\(move \|\w+\| (?:async move )?#TimerBuilder::named(timer_id, completed_handle, receiver#
//@end

} // verus!

fn main() {}
