// Unit W (C13, timer part): the legacy Time API's TimerFuture::poll against the process-wide set
// of cleared timer ids. Extracted verbatim from crux_time/src/lib.rs on every run.
// Rewrites (counted): X1 contract/signature, X2 attributes, X6 world threading (the global
// `CLEARED_TIMER_IDS` is a ghost set in `World`), X12 pin erasure (TimerFuture<F: Unpin> is Unpin).
use vstd::prelude::*;

verus! {

pub tracked struct World {
    /// CLEARED_TIMER_IDS: ids of timers cleared by the app whose futures have not been polled since
    pub ghost cleared: Set<TimerId>,
    /// notifications the legacy Time capability has sent to the shell (Time::clear), oldest first
    pub ghost notified: Seq<TimeRequest>,
    /// ids handed out by get_timer_id so far
    pub ghost issued: Set<TimerId>,
}

//@extract id=TimerId file=crux_time/src/protocol/mod.rs item="struct TimerId"
//@contract
#[derive(Copy, Clone)]
//@end
//@extract id=Instant file=crux_time/src/protocol/instant.rs item="struct Instant"
//@contract
#[derive(Copy, Clone)]
//@end
//@extract id=TimeResponse file=crux_time/src/protocol/mod.rs item="enum TimeResponse"
//@end
//@extract id=Duration file=crux_time/src/protocol/duration.rs item="struct Duration"
//@contract
#[derive(Copy, Clone)]
//@end
//@extract id=TimeRequest file=crux_time/src/protocol/mod.rs item="enum TimeRequest"
//@end

/// std::task::Poll
pub enum Poll<T> { Ready(T), Pending }
#[verifier::external_body]
pub struct Context<'a> { _p: core::marker::PhantomData<&'a u8> }
#[verifier::external_body]
#[verifier::accept_recursive_types(T)]
pub struct PoisonError<T> { _p: core::marker::PhantomData<T> }
impl<T> core::fmt::Debug for PoisonError<T> {
    #[verifier::external_body]
    fn fmt(&self, f: &mut core::fmt::Formatter<'_>) -> core::fmt::Result { unimplemented!() }
}

/// static CLEARED_TIMER_IDS: LazyLock<Mutex<HashSet<TimerId>>>, seen sequentially
pub struct ClearedTimerIds;
pub const CLEARED_TIMER_IDS: ClearedTimerIds = ClearedTimerIds;
#[verifier::external_body]
pub struct ClearedGuard { _p: u8 }
impl ClearedTimerIds {
    // ASSUMED: not poisoned
    #[verifier::external_body]
    pub fn lock(&self) -> (r: Result<ClearedGuard, PoisonError<ClearedGuard>>)
        ensures r is Ok,
    { unimplemented!() }
}
impl ClearedGuard {
    // ASSUMED: std HashSet::insert on the protected set
    #[verifier::external_body]
    pub fn insert(&mut self, Tracked(w): Tracked<&mut World>, id: TimerId) -> (r: bool)
        ensures *final(w) == (World { cleared: old(w).cleared.insert(id), ..*old(w) }),
    { unimplemented!() }
    // ASSUMED: std HashSet::remove on the protected set
    #[verifier::external_body]
    pub fn remove(&mut self, Tracked(w): Tracked<&mut World>, id: &TimerId) -> (r: bool)
        ensures
            r == old(w).cleared.contains(*id),
            *final(w) == (World { cleared: old(w).cleared.remove(*id), ..*old(w) }),
    { unimplemented!() }
}

/// the wrapped shell-request future (any future; user-visible type parameter F)
pub trait InnerFuture {
    /// what polling it now would return (prophecy of user/shell behaviour: uninterpreted)
    spec fn next(&self) -> Poll<TimeResponse>;
    // ASSUMED: polling the inner future does not touch the cleared-timer set
    fn poll(&mut self, Tracked(w): Tracked<&mut World>, cx: &mut Context<'_>) -> (r: Poll<TimeResponse>)
        ensures
            r == old(self).next(),
            *final(w) == *old(w),
    ;
}

//@extract id=TimerFuture file=crux_time/src/lib.rs item="struct TimerFuture"
//@rule X3.bounds 1 s/where\s*F: Future<Output = TimeResponse> \+ Unpin,/where F: InnerFuture,/
//@rule X2.vis * s/\n(\s+)(timer_id|is_cleared|future):/\n\1pub \2:/
//@end

impl<F: InnerFuture> TimerFuture<F> {
//@extract id=TimerFuture::poll file=crux_time/src/lib.rs within="impl<F> Future for TimerFuture<F>" item="fn poll" props=C13+C18
//@expect fn poll( self: Pin<&mut Self>, cx: &mut std::task::Context<'_>, ) -> std::task::Poll<Self::Output>
//@sig fn poll(&mut self, Tracked(w): Tracked<&mut World>, cx: &mut Context<'_>) -> (r: Poll<TimeResponse>)
//@contract
        ensures
            final(self).timer_id == old(self).timer_id,
            old(self).is_cleared ==> r == Poll::Ready(TimeResponse::Cleared { id: old(self).timer_id }) && *final(w) == *old(w) && final(self).is_cleared, // [C13+C18/timer-poll/a-cleared-timer-stays-cleared-and-touches-nothing]
            !old(self).is_cleared ==> final(w).cleared == old(w).cleared.remove(old(self).timer_id), // [C13/timer-poll/polling-takes-the-timers-own-id-out-of-the-cleared-set-and-no-other]
            !old(self).is_cleared && old(w).cleared.contains(old(self).timer_id) ==> r == Poll::Ready(TimeResponse::Cleared { id: old(self).timer_id }) && final(self).is_cleared, // [C13+C18/timer-poll/a-timer-cleared-since-the-last-poll-reports-cleared-at-once]
            !old(self).is_cleared && !old(w).cleared.contains(old(self).timer_id) ==> r == old(self).future.next() && !final(self).is_cleared, // [C13+C18/timer-poll/an-uncleared-timer-defers-to-the-shells-answer]
//@rule X12.pin-erasure * s/self\.get_mut\(\)/self/
//@rule X12.pin-erasure * s/Pin::new\(&mut this\.future\)\.poll\(cx\)/this.future.poll(Tracked(w), cx)/
//@rule X6.world * s/\b(\w+)\.remove\(&/\1.remove(Tracked(w), &/
//@end
}

// ------------------------------------------------------------------ the legacy API's constructors and clear (C18)
/// std types as the app gave them (their conversions are unit T's subject)
#[verifier::external_body]
pub struct StdDuration { _p: u8 }
#[verifier::external_body]
pub struct SystemTime { _p: u8 }
pub uninterp spec fn wire_duration_s(d: StdDuration) -> Duration;
pub uninterp spec fn wire_instant_s(t: SystemTime) -> Instant;
#[verifier::external_body]
pub fn wire_duration(d: StdDuration) -> (r: Duration)
    ensures r == wire_duration_s(d),
{ unimplemented!() }
#[verifier::external_body]
pub fn wire_instant(t: SystemTime) -> (r: Instant)
    ensures r == wire_instant_s(t),
{ unimplemented!() }
// ASSUMED (proved in unit P: get_timer_id hands out an id no timer of the process has)
#[verifier::external_body]
pub fn get_timer_id(Tracked(w): Tracked<&mut World>) -> (r: TimerId)
    ensures !old(w).issued.contains(r), *final(w) == (World { issued: old(w).issued.insert(r), ..*old(w) }),
{ unimplemented!() }
/// the (not yet awaited) future of one shell request
#[verifier::external_body]
pub struct ShellFuture { _p: u8 }
impl ShellFuture { pub uninterp spec fn op(&self) -> TimeRequest; }
impl InnerFuture for ShellFuture {
    uninterp spec fn next(&self) -> Poll<TimeResponse>;
    #[verifier::external_body]
    fn poll(&mut self, Tracked(w): Tracked<&mut World>, cx: &mut Context<'_>) -> (r: Poll<TimeResponse>) { unimplemented!() }
}
#[verifier::external_body]
#[verifier::accept_recursive_types(Ev)]
pub struct CapabilityContext<Ev> { _p: core::marker::PhantomData<Ev> }
impl<Ev> CapabilityContext<Ev> {
    // ASSUMED (crux_core CapabilityContext::request_from_shell): builds the future of exactly this request; nothing is sent until it is polled
    #[verifier::external_body]
    pub fn request_from_shell(&self, operation: TimeRequest) -> (r: ShellFuture)
        ensures r.op() == operation,
    { unimplemented!() }
    // ASSUMED (X17 `context.notify_shell(op).await`; Kani unit A proves the command-API twin): one notification, exactly this operation
    #[verifier::external_body]
    pub fn notify_shell(&self, Tracked(w): Tracked<&mut World>, operation: TimeRequest)
        ensures *final(w) == (World { notified: old(w).notified.push(operation), ..*old(w) }),
    { unimplemented!() }
    // X17: the task handed to spawn has, in the projection, already run to its end
    pub fn spawn(&self, _task: ()) {}
}
impl<Ev> Clone for CapabilityContext<Ev> {
    #[verifier::external_body]
    fn clone(&self) -> (r: Self) { unimplemented!() }
}
pub struct Time<Ev> { pub context: CapabilityContext<Ev> }

impl<F: InnerFuture> TimerFuture<F> {
//@extract id=TimerFuture::new file=crux_time/src/lib.rs within="impl<F> TimerFuture<F>" item="fn new" props=C18
//@expect fn new(timer_id: TimerId, future: F) -> Self
//@sig fn new(timer_id: TimerId, future: F) -> (r: Self)
//@contract
        ensures r.timer_id == timer_id && !r.is_cleared && r.future == future, // [C18/TimerFuture::new/a-new-timer-future-carries-its-id-and-is-not-cleared]
//@end
}

impl<Ev> Time<Ev> {
//@extract id=Time::notify_after_async file=crux_time/src/lib.rs within="impl<Ev> Time<Ev>" item="fn notify_after_async" props=C18
//@expect pub fn notify_after_async( &self, duration: std::time::Duration, ) -> (TimerFuture<impl Future<Output = TimeResponse>>, TimerId)
//@sig pub fn notify_after_async(&self, Tracked(w): Tracked<&mut World>, duration: StdDuration) -> (r: (TimerFuture<ShellFuture>, TimerId))
//@contract
        ensures
            !old(w).issued.contains(r.1), // [C18/legacy-notify_after/the-timer-gets-an-id-no-other-timer-in-the-process-has]
            r.0.timer_id == r.1 && !r.0.is_cleared, // [C18/legacy-notify_after/the-future-watches-exactly-the-id-it-returns]
            r.0.future.op() == (TimeRequest::NotifyAfter { id: r.1, duration: wire_duration_s(duration) }), // [C18/legacy-notify_after/the-request-carries-that-id-and-the-duration-given]
            final(w).cleared == old(w).cleared && final(w).notified == old(w).notified,
//@rule X6.world 1 s/get_timer_id\(\)/get_timer_id(Tracked(w))/
//@rule X7.into 1 s/duration\.into\(\)/wire_duration(duration)/
//@end

//@extract id=Time::notify_at_async file=crux_time/src/lib.rs within="impl<Ev> Time<Ev>" item="fn notify_at_async" props=C18
//@expect pub fn notify_at_async( &self, system_time: SystemTime, ) -> (TimerFuture<impl Future<Output = TimeResponse>>, TimerId)
//@sig pub fn notify_at_async(&self, Tracked(w): Tracked<&mut World>, system_time: SystemTime) -> (r: (TimerFuture<ShellFuture>, TimerId))
//@contract
        ensures
            !old(w).issued.contains(r.1), // [C18/legacy-notify_at/the-timer-gets-an-id-no-other-timer-in-the-process-has]
            r.0.timer_id == r.1 && !r.0.is_cleared, // [C18/legacy-notify_at/the-future-watches-exactly-the-id-it-returns]
            r.0.future.op() == (TimeRequest::NotifyAt { id: r.1, instant: wire_instant_s(system_time) }), // [C18/legacy-notify_at/the-request-carries-that-id-and-the-instant-given]
            final(w).cleared == old(w).cleared && final(w).notified == old(w).notified,
//@rule X6.world 1 s/get_timer_id\(\)/get_timer_id(Tracked(w))/
//@rule X7.into 1 s/system_time\.into\(\)/wire_instant(system_time)/
//@end

//@extract id=Time::clear file=crux_time/src/lib.rs within="impl<Ev> Time<Ev>" item="fn clear" props=C13+C18
//@expect pub fn clear(&self, id: TimerId)
//@sig pub fn clear(&self, Tracked(w): Tracked<&mut World>, id: TimerId)
//@contract
        ensures
            final(w).cleared == old(w).cleared.insert(id), // [C18/legacy-clear/exactly-this-timers-id-enters-the-cleared-set]
            final(w).notified == old(w).notified.push(TimeRequest::Clear { id }), // [C18/legacy-clear/exactly-one-clear-notification-for-its-id]
            final(w).issued == old(w).issued,
//@rule X17.async-block 1 s/async move \{/{/
//@rule X17.await * s/\s*\.await\b//
//@rule X6.world 1 s/\.insert\(id\)/.insert(Tracked(w), id)/
//@rule X6.world 1 s/\.notify_shell\(/.notify_shell(Tracked(w), /
//@end
}

} // verus!

fn main() {}
