// Unit W (C13, timer part): the legacy Time API's TimerFuture::poll against the process-wide set
// of cleared timer ids. Extracted verbatim from crux_time/src/lib.rs on every run.
// Rewrites (counted): X1 contract/signature, X2 attributes, X6 world threading (the global
// `CLEARED_TIMER_IDS` is a ghost set in `World`), X12 pin erasure (TimerFuture<F: Unpin> is Unpin).
use vstd::prelude::*;

verus! {

pub tracked struct World {
    /// CLEARED_TIMER_IDS: ids of timers cleared by the app whose futures have not been polled since
    pub ghost cleared: Set<TimerId>,
}

//@extract id=TimerId file=crux_time/src/protocol/mod.rs item="struct TimerId"
//@contract
#[derive(Copy, Clone)]
//@end
//@extract id=Instant file=crux_time/src/protocol/instant.rs item="struct Instant"
//@contract
#[derive(Copy, Clone)]
//@end
//@extract id=TimeResponse file=crux_time/src/protocol/mod.rs item="enum TimeResponse"
//@end

/// std::task::Poll
pub enum Poll<T> { Ready(T), Pending }
#[verifier::external_body]
pub struct Context<'a> { _p: core::marker::PhantomData<&'a u8> }
#[verifier::external_body]
#[verifier::accept_recursive_types(T)]
pub struct PoisonError<T> { _p: core::marker::PhantomData<T> }
impl<T> core::fmt::Debug for PoisonError<T> {
    #[verifier::external_body]
    fn fmt(&self, f: &mut core::fmt::Formatter<'_>) -> core::fmt::Result { unimplemented!() }
}

/// static CLEARED_TIMER_IDS: LazyLock<Mutex<HashSet<TimerId>>>, seen sequentially
pub struct ClearedTimerIds;
pub const CLEARED_TIMER_IDS: ClearedTimerIds = ClearedTimerIds;
#[verifier::external_body]
pub struct ClearedGuard { _p: u8 }
impl ClearedTimerIds {
    // ASSUMED: not poisoned
    #[verifier::external_body]
    pub fn lock(&self) -> (r: Result<ClearedGuard, PoisonError<ClearedGuard>>)
        ensures r is Ok,
    { unimplemented!() }
}
impl ClearedGuard {
    // ASSUMED: std HashSet::remove on the protected set
    #[verifier::external_body]
    pub fn remove(&mut self, Tracked(w): Tracked<&mut World>, id: &TimerId) -> (r: bool)
        ensures
            r == old(w).cleared.contains(*id),
            final(w).cleared == old(w).cleared.remove(*id),
    { unimplemented!() }
}

/// the wrapped shell-request future (any future; user-visible type parameter F)
pub trait InnerFuture {
    /// what polling it now would return (prophecy of user/shell behaviour: uninterpreted)
    spec fn next(&self) -> Poll<TimeResponse>;
    // ASSUMED: polling the inner future does not touch the cleared-timer set
    fn poll(&mut self, Tracked(w): Tracked<&mut World>, cx: &mut Context<'_>) -> (r: Poll<TimeResponse>)
        ensures
            r == old(self).next(),
            *final(w) == *old(w),
    ;
}

//@extract id=TimerFuture file=crux_time/src/lib.rs item="struct TimerFuture"
//@rule X3.bounds 1 s/where\s*F: Future<Output = TimeResponse> \+ Unpin,/where F: InnerFuture,/
//@rule X2.vis * s/\n(\s+)(timer_id|is_cleared|future):/\n\1pub \2:/
//@end

impl<F: InnerFuture> TimerFuture<F> {
//@extract id=TimerFuture::poll file=crux_time/src/lib.rs within="impl<F> Future for TimerFuture<F>" item="fn poll" props=C13+C18
//@expect fn poll( self: Pin<&mut Self>, cx: &mut std::task::Context<'_>, ) -> std::task::Poll<Self::Output>
//@sig fn poll(&mut self, Tracked(w): Tracked<&mut World>, cx: &mut Context<'_>) -> (r: Poll<TimeResponse>)
//@contract
        ensures
            final(self).timer_id == old(self).timer_id,
            old(self).is_cleared ==> r == Poll::Ready(TimeResponse::Cleared { id: old(self).timer_id }) && *final(w) == *old(w) && final(self).is_cleared, // [C13+C18/timer-poll/a-cleared-timer-stays-cleared-and-touches-nothing]
            !old(self).is_cleared ==> final(w).cleared == old(w).cleared.remove(old(self).timer_id), // [C13/timer-poll/polling-takes-the-timers-own-id-out-of-the-cleared-set-and-no-other]
            !old(self).is_cleared && old(w).cleared.contains(old(self).timer_id) ==> r == Poll::Ready(TimeResponse::Cleared { id: old(self).timer_id }) && final(self).is_cleared, // [C13+C18/timer-poll/a-timer-cleared-since-the-last-poll-reports-cleared-at-once]
            !old(self).is_cleared && !old(w).cleared.contains(old(self).timer_id) ==> r == old(self).future.next() && !final(self).is_cleared, // [C13+C18/timer-poll/an-uncleared-timer-defers-to-the-shells-answer]
//@rule X12.pin-erasure * s/self\.get_mut\(\)/self/
//@rule X12.pin-erasure * s/Pin::new\(&mut this\.future\)\.poll\(cx\)/this.future.poll(Tracked(w), cx)/
//@rule X6.world * s/\b(\w+)\.remove\(&/\1.remove(Tracked(w), &/
//@end
}

} // verus!

fn main() {}
