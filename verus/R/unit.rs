// Unit R (C09, C12, C13): the bridge's ResolveRegistry against an abstract Map view.
// register / resume are extracted verbatim from crux_core/src/bridge/registry.rs on every run.
// Rewrites applied (counted in the evidence): X1 contracts/signature, X2 attributes, X3 auto-trait
// bounds, X4 lock erasure (`self.0.lock().expect(..)` -> exclusive borrow of the protected slab,
// `&self` -> `&mut self`: sequential semantics of a lock held to the end of the body), X5 opaque
// closure / dyn types.
use vstd::prelude::*;

verus! {

// ------------------------------------------------------------------ assumed: slab 0.4.9
// insert picks a key that is not in use; remove frees exactly that key and panics on a vacant
// one; get_mut lends exactly the addressed entry. (Audited by bounded Kani harnesses on the real
// slab in the thorough tier.)
#[verifier::external_body]
#[verifier::reject_recursive_types(T)]
pub struct Slab<T> { _p: core::marker::PhantomData<T> }

impl<T> View for Slab<T> {
    type V = Map<usize, T>;
    uninterp spec fn view(&self) -> Map<usize, T>;
}

impl<T> Slab<T> {
    #[verifier::external_body]
    pub fn insert(&mut self, val: T) -> (key: usize)
        ensures
            !old(self)@.dom().contains(key),
            key <= u32::MAX, // ASSUMED: fewer than 2^32 entries are alive (register panics explicitly otherwise: "EffectId overflow")
            final(self)@ == old(self)@.insert(key, val),
    { unimplemented!() }

    #[verifier::external_body]
    pub fn vacant_key(&self) -> (key: usize)
        ensures
            !self@.dom().contains(key),
            key <= u32::MAX,
    { unimplemented!() }

    #[verifier::external_body]
    pub fn remove(&mut self, key: usize) -> (val: T)
        requires old(self)@.dom().contains(key), // slab panics with "invalid key" otherwise
        ensures
            final(self)@ == old(self)@.remove(key),
            val == old(self)@[key],
    { unimplemented!() }

    #[verifier::external_body]
    pub fn get_mut(&mut self, key: usize) -> (r: Option<&mut T>)
        ensures
            r is Some <==> old(self)@.dom().contains(key),
            r is Some ==> *(r->0) == old(self)@[key] && final(self)@ == old(self)@.insert(key, *final(r->0)),
            r is None ==> final(self)@ == old(self)@,
    { unimplemented!() }

    #[verifier::external_body]
    pub fn len(&self) -> (r: usize)
        ensures self@.dom().finite(), r == self@.dom().len(),
    { unimplemented!() }

    #[verifier::external_body]
    pub fn is_empty(&self) -> (r: bool)
        ensures r <==> self@.dom() =~= Set::<usize>::empty(),
    { unimplemented!() }

    #[verifier::external_body]
    pub fn contains(&self, key: usize) -> (r: bool)
        ensures r == self@.dom().contains(key),
    { unimplemented!() }

    #[verifier::external_body]
    pub fn get(&self, key: usize) -> (r: Option<&T>)
        ensures
            r is Some <==> self@.dom().contains(key),
            r is Some ==> *(r->0) == self@[key],
    { unimplemented!() }

    #[verifier::external_body]
    pub fn clear(&mut self)
        ensures final(self)@ == Map::<usize, T>::empty(),
    { unimplemented!() }

    // weakest sound reading: retain only removes entries (it hands each value to the closure
    // mutably, so nothing is promised about the values that stay)
    #[verifier::external_body]
    pub fn retain<F: FnMut(usize, &mut T) -> bool>(&mut self, f: F)
        ensures forall|k: usize| #![auto] final(self)@.dom().contains(k) ==> old(self)@.dom().contains(k),
    { unimplemented!() }
}

// ------------------------------------------------------------------ X4: lock model
/// std::sync::Mutex seen sequentially: the protected value. `lock().expect(..)` is rewritten to
/// `(&mut self.0.inner)`. Concurrency is not claimed (C08 is not applicable).
pub struct Mutex<T> { pub inner: T }

// ------------------------------------------------------------------ X5: opaque types
/// Box<dyn FnOnce(&mut dyn erased_serde::Deserializer) -> Result<(), BridgeError> + Send>
#[verifier::external_body]
pub struct ResolveOnceSerialized { _p: u8 }
/// Box<dyn FnMut(&mut dyn erased_serde::Deserializer) -> Result<(), BridgeError> + Send>
#[verifier::external_body]
pub struct ResolveManySerialized { _p: u8 }
/// dyn erased_serde::Deserializer (the response body)
#[verifier::external_body]
pub struct ErasedDeserializer { _p: u8 }
impl ErasedDeserializer {
    /// an erased deserializer can be read ONCE (erased-serde 0.4 takes the concrete deserializer out
    /// of an Option; a second use panics with `Option::unwrap()` on `None`)
    pub uninterp spec fn used(&self) -> bool;
}
/// erased_serde::Error
#[verifier::external_body]
pub struct SerdeError { _p: u8 }
/// serde::Serialize (bound only)
pub trait Serialize {}

// ------------------------------------------------------------------ real types (extracted)
//@extract id=ResolveError file=crux_core/src/core/resolve.rs item="enum ResolveError"
//@end
//@extract id=BridgeError file=crux_core/src/bridge/mod.rs item="enum BridgeError"
//@rule X2.inline-attr * s/#\[from\]\s*//
//@end
//@extract id=ResolveSerialized file=crux_core/src/bridge/request_serde.rs item="enum ResolveSerialized"
//@end
//@extract id=EffectId file=crux_core/src/bridge/registry.rs item="struct EffectId"
//@contract
#[derive(Debug, Clone, Copy)]
//@end
//@extract id=bridge.Request file=crux_core/src/bridge/mod.rs item="struct Request"
//@end
//@extract id=ResolveRegistry file=crux_core/src/bridge/registry.rs item="struct ResolveRegistry"
//@end
//@extract id=Effect file=crux_core/src/core/effect.rs item="trait Effect"
//@rule X3.auto-traits 1 s/: Send \+ 'static//
//@rule X1.trait-contract 1 s/fn serialize\(self\) -> \(Self::Ffi, ResolveSerialized\);/spec fn serialize_spec(self) -> (Self::Ffi, ResolveSerialized);\n    fn serialize(self) -> (r: (Self::Ffi, ResolveSerialized))\n        ensures r == self.serialize_spec();/
//@end

/// arity of an entry: 0 never, 1 once, 2 many
pub open spec fn kind(r: ResolveSerialized) -> int {
    match r {
        ResolveSerialized::Never => 0,
        ResolveSerialized::Once(_) => 1,
        ResolveSerialized::Many(_) => 2,
    }
}

/// what resolving entry `e` with response body `b` returns / leaves behind (the continuation is
/// user code: uninterpreted)
pub uninterp spec fn resolve_result(e: ResolveSerialized, b: ErasedDeserializer) -> Result<(), BridgeError>;
pub uninterp spec fn resolve_next(e: ResolveSerialized, b: ErasedDeserializer) -> ResolveSerialized;

impl ResolveSerialized {
    // ASSUMED here, PROVED on the real body by Kani (unit A, in-place contract on
    // ResolveSerialized::resolve, harnesses a_resolve_serialized_contract_*): the arity transition.
    #[verifier::external_body]
    pub fn resolve(&mut self, bytes: &mut ErasedDeserializer) -> (r: Result<(), BridgeError>)
        requires
            kind(*old(self)) != 0 ==> !old(bytes).used(),
        ensures
            r == resolve_result(*old(self), *old(bytes)),
            *final(self) == resolve_next(*old(self), *old(bytes)),
            kind(*old(self)) == 0 ==> kind(*final(self)) == 0 && r == Err::<(), BridgeError>(BridgeError::ProcessResponse(ResolveError::Never)),
            kind(*old(self)) == 1 ==> kind(*final(self)) == 0,
            kind(*old(self)) == 2 ==> kind(*final(self)) == 2,
            // a notification's body is not read; a one-shot's and a stream's continuation deserialize it
            // first (Kani unit A: Resolve::deserializing reads before it calls)
            kind(*old(self)) == 0 ==> final(bytes).used() == old(bytes).used(),
            kind(*old(self)) != 0 ==> final(bytes).used(),
    { unimplemented!() }
}

impl View for ResolveRegistry {
    type V = Map<usize, ResolveSerialized>;
    closed spec fn view(&self) -> Map<usize, ResolveSerialized> { self.0.inner@ }
}

/// "can no longer be resolved": a notification, a consumed one-shot, or a stream whose consumer
/// has reported that it has ended
pub open spec fn unresolvable(e: ResolveSerialized, last: Result<(), BridgeError>) -> bool {
    kind(e) == 0 || last == Err::<(), BridgeError>(BridgeError::ProcessResponse(ResolveError::FinishedMany))
}

impl ResolveRegistry {
//@extract id=ResolveRegistry::register file=crux_core/src/bridge/registry.rs within="impl ResolveRegistry" item="fn register" props=C02+C09+C12+C13
//@expect pub fn register<Eff>(&self, effect: Eff) -> Request<Eff::Ffi> where Eff: Effect,
//@sig fn register<Eff>(&mut self, effect: Eff) -> (r: Request<Eff::Ffi>) where Eff: Effect,
//@contract
        ensures
            !old(self)@.dom().contains(r.id.0 as usize), // [C02+C09/register/id-distinct-from-every-outstanding-id]
            kept(old(self)@, final(self)@), // [C02+C09+C12+C13/register/outstanding-entries-untouched]
            forall|k: usize| #![auto] final(self)@.dom().contains(k) ==> k == r.id.0 as usize || old(self)@.dom().contains(k), // [C13/register/at-most-one-entry-added]
            r.effect == effect.serialize_spec().0, // [C09/register/payload-is-what-serialize-returned]
            final(self)@.dom().contains(r.id.0 as usize) ==> final(self)@[r.id.0 as usize] == effect.serialize_spec().1, // [C02+C09/register/entry-is-the-effects-own-continuation]
            kind(effect.serialize_spec().1) != 0 ==> final(self)@.dom().contains(r.id.0 as usize), // [C09/register/resolvable-request-is-remembered]
            final(self)@.dom().contains(r.id.0 as usize), // [C02+C09+C12/register/the-id-handed-out-stays-occupied-so-no-later-request-can-be-issued-under-an-id-the-shell-may-still-answer]
            kind(effect.serialize_spec().1) == 0 ==> final(self)@ == old(self)@, // [C13/register/request-that-can-never-be-resolved-is-not-remembered]
//@rule X4.lock-erasure * s/self\s*\.0\s*\.lock\(\)\s*\.expect\("[^"]*"\)/(&mut self.0.inner)/
//@rule X8.closure-wildcard * s/\|_\|/|_e|/
//@rule X8.closure-wildcard * s/\|_,/|_k,/
//@end

//@extract id=ResolveRegistry::resume file=crux_core/src/bridge/registry.rs within="impl ResolveRegistry" item="fn resume" props=C02+C06+C09+C12+C13
//@expect pub fn resume( &self, id: EffectId, body: &mut dyn erased_serde::Deserializer, ) -> Result<(), BridgeError>
//@sig fn resume(&mut self, id: EffectId, body: &mut ErasedDeserializer) -> (r: Result<(), BridgeError>)
//@contract
        requires
            old(self)@.dom().contains(id.0 as usize), // a response to an OUTSTANDING request (for other ids the code panics, as documented)
            !old(body).used(),
        ensures
            kind(old(self)@[id.0 as usize]) != 0 ==> final(body).used(), // [C12/resume/the-response-body-is-read-by-the-addressed-continuation]
            kind(old(self)@[id.0 as usize]) == 0 ==> !final(body).used(),
            forall|k: usize| #![auto] k != id.0 as usize ==> (final(self)@.dom().contains(k) <==> old(self)@.dom().contains(k)), // [C02+C09+C12+C13/resume/no-other-entry-added-or-removed]
            forall|k: usize| #![auto] k != id.0 as usize && old(self)@.dom().contains(k) ==> final(self)@[k] == old(self)@[k], // [C02+C09+C12/resume/no-other-entry-touched-even-when-rejected]
            r == resolve_result(old(self)@[id.0 as usize], *old(body)), // [C02+C09+C12/resume/result-is-the-addressed-entrys-own-resolution]
            final(self)@.dom().contains(id.0 as usize) ==> final(self)@[id.0 as usize] == resolve_next(old(self)@[id.0 as usize], *old(body)), // [C09/resume/entry-advanced-only-by-its-own-resolution]
            kind(resolve_next(old(self)@[id.0 as usize], *old(body))) == 0 ==> !final(self)@.dom().contains(id.0 as usize), // [C13/resume/consumed-or-never-entry-is-forgotten]
            r == Err::<(), BridgeError>(BridgeError::ProcessResponse(ResolveError::FinishedMany)) ==> !final(self)@.dom().contains(id.0 as usize), // [C13/resume/ended-stream-is-forgotten]
            !unresolvable(resolve_next(old(self)@[id.0 as usize], *old(body)), r) ==> final(self)@.dom().contains(id.0 as usize), // [C09+C13/resume/live-subscription-not-torn-down]
            kind(old(self)@[id.0 as usize]) == 2 && r == Err::<(), BridgeError>(BridgeError::ProcessResponse(ResolveError::FinishedMany)) ==> final(self)@.dom().contains(id.0 as usize), // [C06/resume/a-stream-whose-consumer-was-cancelled-stays-answerable-the-next-late-response-must-not-hit-the-unknown-id-panic]
//@rule X4.lock-erasure * s/self\s*\.0\s*\.lock\(\)\s*\.expect\("[^"]*"\)/(&mut self.0.inner)/
//@rule X8.closure-wildcard * s/\|_\|/|_e|/
//@rule X8.closure-wildcard * s/\|_,/|_k,/
//@end
}

// ================================================================== bridge/mod.rs: BridgeWithSerializer::process
/// dyn erased_serde::Serializer (where the batch of requests is written). `written()` is the
/// ghost log of what has been serialized into it: one sequence of request ids per batch.
#[verifier::external_body]
pub struct ErasedSerializer { _p: u8 }
impl ErasedSerializer {
    pub uninterp spec fn written(&self) -> Seq<Seq<u32>>;
}
/// serde names a body may mention (only as type arguments of `deserialize`)
pub mod serde { pub mod de { pub struct IgnoredAny; } }
pub mod erased_serde {
    use super::*;
    // ASSUMED: returns Ok or Err for any input (bincode/serde_json do not panic, hang or
    // over-allocate on arbitrary bytes - third party, for all byte strings: out of reach)
    #[verifier::external_body]
    pub fn deserialize<T>(d: &mut ErasedDeserializer) -> (r: Result<T, SerdeError>)
        requires !old(d).used(),
        ensures final(d).used(),
    { unimplemented!() }
}
/// `<dyn erased_serde::Deserializer>::erase(d)` / `<dyn erased_serde::Serializer>::erase(s)`: a fresh,
/// unread erased deserializer over the shell's bytes / an erased serializer with nothing written
#[verifier::external_body]
pub fn erase_de<D>(d: D) -> (r: ErasedDeserializer)
    ensures !r.used(),
{ unimplemented!() }
#[verifier::external_body]
pub fn erase_ser<S>(s: S) -> (r: ErasedSerializer)
{ unimplemented!() }
pub open spec fn ids_of<E: Serialize>(v: Seq<Request<E>>) -> Seq<u32> {
    v.map_values(|r: Request<E>| r.id.0)
}
/// `requests.erased_serialize(requests_out)`: erased_serde::Serialize for Vec<Request<_>>
#[verifier::external_body]
pub fn erased_serialize<E: Serialize>(requests: &Vec<Request<E>>, out: &mut ErasedSerializer) -> (r: Result<(), SerdeError>)
    ensures
        r is Ok ==> final(out).written() == old(out).written().push(ids_of(requests@)),
{ unimplemented!() }

/// The user's app, as far as the bridge is concerned
pub trait App {
    type Event;
    type Effect: Effect;
}
impl<T: Serialize> Serialize for Vec<T> {}

/// crux_core::Core<A>. Its two entry points are extracted and proved in unit Q (local fixpoint,
/// effects handed over exactly once in order); here they are only "return some effects".
#[verifier::external_body]
#[verifier::accept_recursive_types(A)]
pub struct Core<A: App> { _p: core::marker::PhantomData<A> }
impl<A: App> Core<A> {
    #[verifier::external_body]
    pub fn process_event(&mut self, event: A::Event) -> (r: Vec<A::Effect>)
    { unimplemented!() }
    #[verifier::external_body]
    pub fn process(&mut self) -> (r: Vec<A::Effect>)
    { unimplemented!() }
}

/// every entry of a is still in b, unchanged
pub open spec fn kept(a: Map<usize, ResolveSerialized>, b: Map<usize, ResolveSerialized>) -> bool {
    forall|k: usize| #[trigger] a.dom().contains(k) ==> b.dom().contains(k) && b[k] == a[k]
}

// X13: `effects.into_iter().map(|eff| self.registry.register(eff)).collect()` is std's map +
// collect over a Vec: call the closure on each element front to back and push the results.
// Written out as that loop (ASSUMED to be what the adapter chain does) and verified against the
// extracted `register` above.
#[verifier::exec_allows_no_decreases_clause]
fn register_all<Eff: Effect>(registry: &mut ResolveRegistry, effects: Vec<Eff>) -> (out: Vec<Request<Eff::Ffi>>)
    ensures
        out@.len() == effects@.len(), // [C09/register_all/one-request-per-effect]
        forall|i: int| #![auto] 0 <= i < out@.len() ==> out@[i].effect == effects@[i].serialize_spec().0, // [C09/register_all/payloads-in-the-cores-order]
        forall|i: int, j: int| #![auto] 0 <= i < j < out@.len() && kind(effects@[i].serialize_spec().1) != 0 && kind(effects@[j].serialize_spec().1) != 0 ==> out@[i].id.0 != out@[j].id.0, // [C09/register_all/resolvable-requests-of-one-batch-get-pairwise-distinct-ids]
        forall|i: int| #![auto] 0 <= i < out@.len() ==> !old(registry)@.dom().contains(out@[i].id.0 as usize), // [C09/register_all/ids-are-distinct-from-every-outstanding-id]
        kept(old(registry)@, final(registry)@), // [C09+C12/register_all/outstanding-entries-untouched]
{
    let mut effects = effects;
    let ghost all = effects@;
    let mut out: Vec<Request<Eff::Ffi>> = Vec::new();
    while effects.len() > 0
        invariant
            out@.len() + effects@.len() == all.len(),
            forall|i: int| #![auto] 0 <= i < effects@.len() ==> effects@[i] == all[out@.len() + i],
            forall|i: int| #![auto] 0 <= i < out@.len() ==> out@[i].effect == all[i].serialize_spec().0,
            forall|i: int| #![auto] 0 <= i < out@.len() ==> !old(registry)@.dom().contains(out@[i].id.0 as usize),
            // a resolvable request registered earlier in this batch still occupies its id, so the
            // next id (vacant when taken) differs from it
            forall|i: int| #![auto] 0 <= i < out@.len() && kind(all[i].serialize_spec().1) != 0 ==> registry@.dom().contains(out@[i].id.0 as usize),
            forall|i: int, j: int| #![auto] 0 <= i < j < out@.len() && kind(all[i].serialize_spec().1) != 0 && kind(all[j].serialize_spec().1) != 0 ==> out@[i].id.0 != out@[j].id.0,
            kept(old(registry)@, registry@),
    {
        let ghost before = registry@;
        let eff = effects.remove(0);
        let request = registry.register(eff);
        proof {
            assert(kept(before, registry@));
        }
        out.push(request);
    }
    out
}

//@extract id=BridgeWithSerializer file=crux_core/src/bridge/mod.rs item="struct BridgeWithSerializer"
//@rule X2.vis * s/\n(\s+)(core|registry):/\n\1pub \2:/
//@end

impl<A> BridgeWithSerializer<A>
where
    A: App,
{
//@extract id=BridgeWithSerializer::process_event file=crux_core/src/bridge/mod.rs within="impl<A> BridgeWithSerializer<A>" item="fn process_event" props=C09+C12
//@expect pub fn process_event<'de, D, S>(&self, event: D, requests_out: S) -> Result<(), BridgeError> where for<'a> A::Event: Deserialize<'a>, D: ::serde::de::Deserializer<'de> + 'de, S: ::serde::ser::Serializer,
//@sig fn process_event<D, S>(&mut self, event: D, requests_out: S) -> (r: Result<(), BridgeError>)
//@contract
        ensures
            (r matches Err(BridgeError::DeserializeEvent(_))) ==> final(self).core == old(self).core && final(self).registry@ == old(self).registry@, // [C12/process_event/a-rejected-event-leaves-core-and-registry-exactly-as-they-were]
            r is Err ==> (r matches Err(BridgeError::DeserializeEvent(_))) || (r matches Err(BridgeError::SerializeRequests(_))), // [C12/process_event/errors-are-error-values-of-the-event-path]
            kept(old(self).registry@, final(self).registry@), // [C09+C12/process_event/an-event-never-disturbs-outstanding-requests]
//@rule X5.erase * s/<dyn erased_serde::Deserializer>::erase\((\w+)\)/erase_de(\1)/
//@rule X5.erase * s/<dyn erased_serde::Serializer>::erase\((\w+)\)/erase_ser(\1)/
//@end

//@extract id=BridgeWithSerializer::handle_response file=crux_core/src/bridge/mod.rs within="impl<A> BridgeWithSerializer<A>" item="fn handle_response" props=C02+C09+C12
//@expect pub fn handle_response<'de, D, S>( &self, id: u32, response: D, requests_out: S, ) -> Result<(), BridgeError> where for<'a> A::Event: Deserialize<'a>, D: ::serde::de::Deserializer<'de>, S: ::serde::ser::Serializer,
//@sig fn handle_response<D, S>(&mut self, id: u32, response: D, requests_out: S) -> (r: Result<(), BridgeError>)
//@contract
        requires
            old(self).registry@.dom().contains(id as usize), // a response to an OUTSTANDING request
        ensures
            r is Err && !(r matches Err(BridgeError::SerializeRequests(_))) ==> final(self).core == old(self).core, // [C12/handle_response/a-rejected-response-never-reaches-the-core]
            r is Err && !(r matches Err(BridgeError::SerializeRequests(_))) ==> (forall|k: usize| #![trigger final(self).registry@.dom().contains(k)] k != id as usize ==> (final(self).registry@.dom().contains(k) <==> old(self).registry@.dom().contains(k)) && (old(self).registry@.dom().contains(k) ==> final(self).registry@[k] == old(self).registry@[k])), // [C02+C09+C12/handle_response/a-rejected-response-touches-at-most-the-request-issued-under-exactly-this-id]
//@rule X5.erase * s/<dyn erased_serde::Deserializer>::erase\((\w+)\)/erase_de(\1)/
//@rule X5.erase * s/<dyn erased_serde::Serializer>::erase\((\w+)\)/erase_ser(\1)/
//@end

//@extract id=BridgeWithSerializer::process file=crux_core/src/bridge/mod.rs within="impl<A> BridgeWithSerializer<A>" item="fn process" props=C09+C12
//@expect fn process( &self, id: Option<EffectId>, data: &mut dyn erased_serde::Deserializer, requests_out: &mut dyn erased_serde::Serializer, ) -> Result<(), BridgeError> where A::Event: for<'a> Deserialize<'a>,
//@sig fn process(&mut self, id: Option<EffectId>, data: &mut ErasedDeserializer, requests_out: &mut ErasedSerializer) -> (r: Result<(), BridgeError>)
//@contract
        requires
            id is Some ==> old(self).registry@.dom().contains((id->0).0 as usize), // a response to an OUTSTANDING request
            !old(data).used(),
        ensures
            final(data).used() || (id is Some && kind(old(self).registry@[(id->0).0 as usize]) == 0), // [C12/process/the-erased-input-is-read-exactly-once-unless-addressed-to-a-notification]
            id is None && (r matches Err(BridgeError::DeserializeEvent(_))) ==> final(self).core == old(self).core && final(self).registry@ == old(self).registry@ && final(requests_out).written() == old(requests_out).written(), // [C12/process/a-rejected-event-leaves-core-registry-and-output-exactly-as-they-were]
            id is None && r is Err ==> (r matches Err(BridgeError::DeserializeEvent(_))) || (r matches Err(BridgeError::SerializeRequests(_))), // [C12/process/event-path-errors-are-error-values]
            id is Some && r is Err && !(r matches Err(BridgeError::SerializeRequests(_))) ==> final(self).core == old(self).core && final(requests_out).written() == old(requests_out).written(), // [C12/process/a-rejected-response-never-reaches-the-core]
            id is Some && r is Err && !(r matches Err(BridgeError::SerializeRequests(_))) ==> (forall|k: usize| #![trigger final(self).registry@.dom().contains(k)] k != (id->0).0 as usize ==> (final(self).registry@.dom().contains(k) <==> old(self).registry@.dom().contains(k)) && (old(self).registry@.dom().contains(k) ==> final(self).registry@[k] == old(self).registry@[k])), // [C12/process/a-rejected-response-touches-at-most-the-addressed-request]
            r is Ok ==> final(requests_out).written().len() == old(requests_out).written().len() + 1, // [C09/process/exactly-one-batch-of-requests-written]
            r is Ok && id is None ==> (forall|i: int| #![auto] 0 <= i < final(requests_out).written().last().len() ==> !old(self).registry@.dom().contains(final(requests_out).written().last()[i] as usize)), // [C09/process/new-ids-distinct-from-every-outstanding-id]
            id is None ==> kept(old(self).registry@, final(self).registry@), // [C09+C12/process/an-event-never-disturbs-outstanding-requests]
//@rule X8b.eta * s/\.map_err\(BridgeError::(\w+)\)/.map_err(|e: SerdeError| -> (x: BridgeError) ensures x == BridgeError::\1(e) { BridgeError::\1(e) })/
//@rule X13.map-collect 1 s/let requests(?:: Vec<_>)? = effects\s*\.into_iter\(\)\s*\.map\(\|(\w+)\| self\.registry\.register\(\1\)\)\s*\.collect(?:::<Vec<_>>)?\(\);/let requests = register_all(&mut self.registry, effects);/
//@rule X13.erased-serialize 1 s/requests\s*\.erased_serialize\(requests_out\)/erased_serialize(&requests, requests_out)/
//@end
}

} // verus!

fn main() {}
