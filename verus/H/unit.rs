// Unit H (C14, C15, C16): crux_http's own logic between the app's description of a request and
// the shell, extracted verbatim from crux_http/src on every run: the middleware chain
// (`Next::run`, `Client::send`), the redirect middleware's loop, the conversion into the protocol
// request and the classification of the shell's answer.
// http-types / url are third-party: opaque types with ASSUMED contracts (listed by the scan).
// Rewrites (counted): X1 contracts, X2 attributes, X6 world threading (ghost log `HW` of what was
// handed to `client.send`, to the rest of the chain and to the shell), X17 synchronous projection
// (async fn -> fn, `.await` erased: drops rustc's state machine and *when* the pieces run; keeps
// every statement, branch, loop and argument), X19 mut self.
use vstd::prelude::*;

verus! {

// ------------------------------------------------------------------ third-party values (opaque)
/// http_types::Url (url::Url)
#[verifier::external_body]
pub struct Url { _p: u8 }
/// http_types::url::ParseError: the one variant crux inspects, and the rest
pub enum ParseError { RelativeUrlWithoutBase, Other(u8) }
pub mod http_types { pub mod url { pub use super::super::ParseError; } pub mod headers { pub use super::super::HeaderName; pub const CONTENT_TYPE: HeaderName = HeaderName::Other(1); pub const LOCATION: HeaderName = HeaderName::Location; } pub use super::HttpTypesRequest as Request; pub use super::HttpTypesResponse as Response; pub use super::StatusCode; pub use super::Version; }

/// what `Url::parse(s)` / `base.join(s)` return: the url crate's (RFC 3986) resolution, uninterpreted
pub uninterp spec fn parse_spec(s: Seq<char>) -> core::result::Result<Url, ParseError>;
pub uninterp spec fn join_spec(base: Url, s: Seq<char>) -> core::result::Result<Url, ParseError>;

impl Url {
    // ASSUMED (url crate)
    #[verifier::external_body]
    pub fn parse(s: &str) -> (r: core::result::Result<Url, ParseError>)
        ensures r == parse_spec(s@),
    { unimplemented!() }
    // ASSUMED (url crate): resolves `s` against self
    #[verifier::external_body]
    pub fn join(&self, s: &str) -> (r: core::result::Result<Url, ParseError>)
        ensures r == join_spec(*self, s@),
    { unimplemented!() }
}
impl Clone for Url {
    // ASSUMED: a clone of a Url is that Url
    #[verifier::external_body]
    fn clone(&self) -> (r: Self)
        ensures r == *self,
    { unimplemented!() }
}

/// The target a redirect to `location` designates when the request that was answered went to
/// `current` (the PROPERTY's reading: an absolute location is itself, a relative one is resolved
/// against the current URL, anything else is an error).
pub open spec fn resolve(current: Url, location: Seq<char>) -> core::result::Result<Url, ParseError> {
    match parse_spec(location) {
        Ok(u) => Ok(u),
        Err(ParseError::RelativeUrlWithoutBase) => join_spec(current, location),
        Err(e) => Err(e),
    }
}

#[derive(PartialEq, Eq, Structural, Clone, Copy)]
pub enum StatusCode {
    MovedPermanently, Found, SeeOther, TemporaryRedirect, PermanentRedirect,
    /// every other status code (by number)
    Other(u16),
}
/// the redirect statuses of the documentation of `Redirect::new`: 301 302 303 307 308
pub open spec fn is_redirect(s: StatusCode) -> bool {
    s is MovedPermanently || s is Found || s is SeeOther || s is TemporaryRedirect || s is PermanentRedirect
}
// ASSUMED (core): slice::contains on a type with structural equality
pub assume_specification<T: PartialEq> [<[T]>::contains] (s: &[T], x: &T) -> (r: bool)
    ensures r == s@.contains(*x);
// ASSUMED (core): slice::split_last
pub assume_specification<T> [<[T]>::split_last] (s: &[T]) -> (r: Option<(&T, &[T])>)
    ensures
        s@.len() == 0 ==> r is None,
        s@.len() > 0 ==> (r matches Some(p) && *p.0 == s@[s@.len() - 1] && p.1@ == s@.subrange(0, s@.len() - 1));
pub enum HeaderName { Location, Other(u8) }
impl HeaderName {
    /// the header's name as http-types prints it
    pub uninterp spec fn text(&self) -> Seq<char>;
    // ASSUMED (Display for HeaderName)
    #[verifier::external_body]
    pub fn to_string(&self) -> (r: String)
        ensures r@ == self.text(),
    { unimplemented!() }
    #[verifier::external_body]
    pub fn as_str(&self) -> (r: &str)
        ensures r@ == self.text(),
    { unimplemented!() }
}
// ASSUMED (alloc): an owned copy of a str
#[verifier::external_body]
pub fn str_to_owned(s: &str) -> (r: String)
    ensures r@ == s@,
{ unimplemented!() }
pub mod headers { pub use super::HeaderName; pub const LOCATION: HeaderName = HeaderName::Location; }
#[verifier::external_body]
pub struct HeaderValues { _p: u8 }
#[verifier::external_body]
pub struct HeaderValue { _p: u8 }
pub uninterp spec fn last_value_str(v: HeaderValues) -> Seq<char>;
impl HeaderValues {
    /// the values of the header, in order
    pub uninterp spec fn vals(&self) -> Seq<HeaderValue>;
    /// their texts
    pub open spec fn texts(&self) -> Seq<Seq<char>> { self.vals().map(|_i: int, v: HeaderValue| v.text()) }
    // ASSUMED (http-types: HeaderValues derefs to its FIRST value; the deref panics when there is none)
    #[verifier::external_body]
    pub fn as_str(&self) -> (r: &str)
        requires self.vals().len() > 0,
        ensures r@ == self.vals()[0].text(),
    { unimplemented!() }
    // ASSUMED (http-types): iterates the values in order
    #[verifier::external_body]
    pub fn iter(&self) -> (r: ValuesIter<'_>)
        ensures r.vals() == self.vals(),
    { unimplemented!() }
    // ASSUMED (http-types): the last value of the header
    #[verifier::external_body]
    pub fn last(&self) -> (r: &HeaderValue)
        ensures r.text() == last_value_str(*self),
    { unimplemented!() }
}
impl HeaderValue {
    pub uninterp spec fn text(&self) -> Seq<char>;
    #[verifier::external_body]
    pub fn as_str(&self) -> (r: &str)
        ensures r@ == self.text(),
    { unimplemented!() }
    // ASSUMED (Display for HeaderValue)
    #[verifier::external_body]
    pub fn to_string(&self) -> (r: String)
        ensures r@ == self.text(),
    { unimplemented!() }
}

/// the numeric status code
pub open spec fn code_of(s: StatusCode) -> u16 {
    match s {
        StatusCode::MovedPermanently => 301, StatusCode::Found => 302, StatusCode::SeeOther => 303,
        StatusCode::TemporaryRedirect => 307, StatusCode::PermanentRedirect => 308, StatusCode::Other(n) => n,
    }
}
impl StatusCode {
    // ASSUMED (http-types): 400..=499
    #[verifier::external_body]
    pub fn is_client_error(&self) -> (r: bool)
        ensures r == (400 <= code_of(*self) < 500),
    { unimplemented!() }
    // ASSUMED (http-types): 500..=599
    #[verifier::external_body]
    pub fn is_server_error(&self) -> (r: bool)
        ensures r == (500 <= code_of(*self) < 600),
    { unimplemented!() }
    // ASSUMED (http-types): 100..=199, 200..=299, 300..=399
    #[verifier::external_body]
    pub fn is_informational(&self) -> (r: bool)
        ensures r == (100 <= code_of(*self) < 200),
    { unimplemented!() }
    #[verifier::external_body]
    pub fn is_success(&self) -> (r: bool)
        ensures r == (200 <= code_of(*self) < 300),
    { unimplemented!() }
    #[verifier::external_body]
    pub fn is_redirection(&self) -> (r: bool)
        ensures r == (300 <= code_of(*self) < 400),
    { unimplemented!() }
    // ASSUMED (Display for StatusCode)
    #[verifier::external_body]
    pub fn to_string(&self) -> (r: String)
        ensures r@ == status_text(*self),
    { unimplemented!() }
}
pub uninterp spec fn status_text(s: StatusCode) -> Seq<char>;
/// http_types::Headers (a map; opaque value)
#[verifier::external_body]
pub struct Headers { _p: u8 }
impl Headers {
    /// the header map's contents: name -> values in order (a HashMap: no order among names)
    pub uninterp spec fn content(&self) -> Map<Seq<char>, Seq<Seq<char>>>;
}
/// two header maps walked side by side in their own iteration orders (`a.iter().zip(b.iter()).all(..)`):
/// the iteration order of a HashMap is unspecified and differs between two maps with the same contents,
/// so the weakest sound contract says nothing about the answer
#[verifier::external_body]
pub fn zip_all_in_iteration_order(a: &Headers, b: &Headers) -> (r: bool) { unimplemented!() }
/// `self.body == other.body` for the app's body type (its PartialEq is the app's)
pub uninterp spec fn body_eq_s<B>(a: Option<B>, b: Option<B>) -> bool;
#[verifier::external_body]
pub fn body_eq<B>(a: &Option<B>, b: &Option<B>) -> (r: bool)
    ensures r == body_eq_s(*a, *b),
{ unimplemented!() }
impl Clone for Headers {
    // ASSUMED: a clone of a header map is that header map
    #[verifier::external_body]
    fn clone(&self) -> (r: Self)
        ensures r == *self,
    { unimplemented!() }
}
#[derive(PartialEq, Eq, Structural, Clone, Copy)]
pub enum Version { Http0_9, Http1_0, Http1_1, Http2_0, Http3_0 }
/// the status codes http-types has a name for (its StatusCode enum); `Response::new` PANICS on any other
pub uninterp spec fn known_status(code: u16) -> bool;
/// http_types::Response while it is being built
#[verifier::external_body]
pub struct HttpTypesResponse { _p: u8 }
impl HttpTypesResponse {
    pub uninterp spec fn code(&self) -> u16;
    pub uninterp spec fn body_s(&self) -> Seq<u8>;
    /// header (name, value) pairs in the order they were appended
    pub uninterp spec fn appended(&self) -> Seq<(Seq<char>, Seq<char>)>;
    // ASSUMED (http-types 2.12 Response::new: `status.try_into().expect("Could not convert into a valid StatusCode")`)
    #[verifier::external_body]
    pub fn new(status: u16) -> (r: Self)
        requires known_status(status),
        ensures r.code() == status, r.body_s() == Seq::<u8>::empty(), r.appended() == Seq::<(Seq<char>, Seq<char>)>::empty(),
    { unimplemented!() }
    #[verifier::external_body]
    pub fn set_body(&mut self, body: Vec<u8>)
        ensures final(self).body_s() == body@, final(self).code() == old(self).code(), final(self).appended() == old(self).appended(),
    { unimplemented!() }
    #[verifier::external_body]
    pub fn append_header(&mut self, name: &str, value: String)
        ensures final(self).appended() == old(self).appended().push((name@, value@)), final(self).code() == old(self).code(), final(self).body_s() == old(self).body_s(),
    { unimplemented!() }
}

/// everything of a request but its URL and body: method, headers, version, ... (opaque)
#[verifier::external_body]
pub struct ReqHead { _p: u8 }
/// a request body (opaque)
#[verifier::external_body]
pub struct BodyV { _p: u8 }
/// the empty body a cloned http-types request carries
pub uninterp spec fn empty_body() -> BodyV;

/// http_types::Request
#[verifier::external_body]
pub struct HttpTypesRequest { _p: u8 }
impl HttpTypesRequest {
    pub uninterp spec fn url(&self) -> Url;
    pub uninterp spec fn head(&self) -> ReqHead;
    pub uninterp spec fn body(&self) -> BodyV;
    // ASSUMED (http-types): a mutable reference to the request's URL and nothing else
    #[verifier::external_body]
    pub fn url_mut(&mut self) -> (r: &mut Url)
        ensures
            *r == old(self).url(),
            final(self).url() == *final(r),
            final(self).head() == old(self).head(),
            final(self).body() == old(self).body(),
    { unimplemented!() }
}

/// crux_http::Request (http_types::Request + optional per-request middleware), seen through its accessors
#[verifier::external_body]
pub struct Request { _p: u8 }
impl Request {
    pub uninterp spec fn url_s(&self) -> Url;
    pub uninterp spec fn head(&self) -> ReqHead;
    pub uninterp spec fn body(&self) -> BodyV;
    /// the declared length of the body, if it is known up front (http_types::Body::len)
    pub uninterp spec fn body_len(&self) -> Option<nat>;
    /// what reading the body to its end yields
    pub uninterp spec fn body_content(&self) -> core::result::Result<Seq<u8>, HttpTypesError>;
    pub uninterp spec fn method_s(&self) -> Method;
    /// the header map's entries in ITS iteration order (a hash map: any order, fixed per value)
    pub uninterp spec fn entries(&self) -> Seq<(HeaderName, HeaderValues)>;
    /// (name, value) for every value of every header, in the header map's iteration order
    pub open spec fn header_pairs(&self) -> Seq<(Seq<char>, Seq<char>)> { flat_pairs(self.entries()) }
    // ASSUMED (http-types Request::iter): visits every entry of the header map once
    #[verifier::external_body]
    pub fn iter(&self) -> (r: HeadersIter<'_>)
        ensures r.entries() == self.entries(),
    { unimplemented!() }
    // ASSUMED (http_types::Request::is_empty -> Body::is_empty: `self.length.map(|l| l == 0)`)
    #[verifier::external_body]
    pub fn is_empty(&self) -> (r: Option<bool>)
        ensures r == (match self.body_len() { Some(n) => Some(n == 0), None => None::<bool> }),
    { unimplemented!() }
    // ASSUMED (http-types): hands out the body, leaves an empty one; nothing else changes
    #[verifier::external_body]
    pub fn take_body(&mut self) -> (r: Body)
        ensures
            r.content() == old(self).body_content(),
            final(self).url_s() == old(self).url_s(), final(self).method_s() == old(self).method_s(), final(self).entries() == old(self).entries(),
    { unimplemented!() }
    #[verifier::external_body]
    pub fn method(&self) -> (r: Method)
        ensures r == self.method_s(),
    { unimplemented!() }
    // ASSUMED (http-types remove_header / insert_header / append_header): the header map changes (in a way not
    // modelled); URL, method and body do not. Present so that a conversion that edits the headers is refuted.
    #[verifier::external_body]
    pub fn remove_header(&mut self, name: HeaderName) -> (r: Option<HeaderValues>)
        ensures final(self).url_s() == old(self).url_s(), final(self).method_s() == old(self).method_s(), final(self).body_content() == old(self).body_content(), final(self).body_len() == old(self).body_len(),
    { unimplemented!() }
    /// the per-request middleware stack, if any
    pub uninterp spec fn req_mw(&self) -> Option<Seq<ArcMiddleware>>;
    // ASSUMED (Request::take_middleware: `self.middleware.take()`): hands the stack out, leaves none, touches nothing else
    #[verifier::external_body]
    pub fn take_middleware(&mut self) -> (r: Option<Vec<ArcMiddleware>>)
        ensures
            match r { Some(v) => old(self).req_mw() == Some(v@), None => old(self).req_mw() is None },
            final(self).req_mw() is None,
            final(self).url_s() == old(self).url_s(), final(self).head() == old(self).head(), final(self).body() == old(self).body(),
    { unimplemented!() }
    // ASSUMED (crux_http::Request::url -> http_types::Request::url)
    #[verifier::external_body]
    pub fn url(&self) -> (r: &Url)
        ensures *r == self.url_s(),
    { unimplemented!() }
    // ASSUMED (impl AsMut<http_types::Request> for Request: `&mut self.req`)
    #[verifier::external_body]
    pub fn as_mut(&mut self) -> (r: &mut HttpTypesRequest)
        ensures
            r.url() == old(self).url_s(), r.head() == old(self).head(), r.body() == old(self).body(),
            final(self).url_s() == final(r).url(), final(self).head() == final(r).head(), final(self).body() == final(r).body(),
    { unimplemented!() }
}
impl Clone for Request {
    // ASSUMED (derive(Clone) over http_types::Request::clone, which is documented to leave the
    // body behind): same URL, method and headers, empty body
    #[verifier::external_body]
    fn clone(&self) -> (r: Self)
        ensures r.url_s() == self.url_s(), r.head() == self.head(), r.body() == empty_body(),
    { unimplemented!() }
}

/// one (name, value) pair per value of one header
pub open spec fn pairs_with(nm: Seq<char>, vals: Seq<HeaderValue>) -> Seq<(Seq<char>, Seq<char>)> {
    vals.map(|_i: int, v: HeaderValue| (nm, v.text()))
}
pub open spec fn pairs_of(n: HeaderName, vs: HeaderValues) -> Seq<(Seq<char>, Seq<char>)> { pairs_with(n.text(), vs.vals()) }
/// all pairs of all entries, entry by entry
pub open spec fn flat_pairs(e: Seq<(HeaderName, HeaderValues)>) -> Seq<(Seq<char>, Seq<char>)>
    decreases e.len(),
{
    if e.len() == 0 { Seq::empty() } else { flat_pairs(e.drop_last()) + pairs_of(e.last().0, e.last().1) }
}
/// `values.iter()`
#[verifier::external_body]
pub struct ValuesIter<'a> { _p: core::marker::PhantomData<&'a u8> }
/// `values.iter().map(g)`: an iterator of protocol headers
#[verifier::external_body]
pub struct MappedValues { _p: u8 }
/// `self.iter()` over the header map
#[verifier::external_body]
pub struct HeadersIter<'a> { _p: core::marker::PhantomData<&'a u8> }
/// `self.iter().flat_map(f)`
#[verifier::external_body]
pub struct FlatMapped { _p: u8 }
impl MappedValues { pub uninterp spec fn produced(&self) -> Seq<HttpHeader>; }
impl FlatMapped {
    pub uninterp spec fn produced(&self) -> Seq<HttpHeader>;
    // ASSUMED (Iterator::collect::<Vec<_>>): everything the iterator produces, in order
    #[verifier::external_body]
    pub fn collect(self) -> (r: Vec<HttpHeader>)
        ensures r@ == self.produced(),
    { unimplemented!() }
}
impl<'a> ValuesIter<'a> {
    pub uninterp spec fn vals(&self) -> Seq<HeaderValue>;
    // ASSUMED (Iterator::map, parametric in g): if g turns every value v into a header (nm, text of v),
    // the mapped iterator produces exactly one such header per value, in order
    #[verifier::external_body]
    pub fn map<G: Fn(&'a HeaderValue) -> HttpHeader>(self, g: G) -> (r: MappedValues)
        requires forall|v: &HeaderValue| call_requires(g, (v,)),
        ensures forall|nm: Seq<char>| (forall|v: &HeaderValue, h: HttpHeader| call_ensures(g, (v,), h) ==> h.name@ == nm && h.value@ == v.text())
            ==> header_pairs(r.produced()) == #[trigger] pairs_with(nm, self.vals()),
    { unimplemented!() }
}
impl<'a> HeadersIter<'a> {
    pub uninterp spec fn entries(&self) -> Seq<(HeaderName, HeaderValues)>;
    // ASSUMED (Iterator::map at the level of header NAMES): one item per entry of the map, whatever f makes of it
    #[verifier::external_body]
    pub fn map<F: Fn((&'a HeaderName, &'a HeaderValues)) -> HttpHeader>(self, f: F) -> (r: FlatMapped)
        requires forall|n: &HeaderName, vs: &HeaderValues| call_requires(f, ((n, vs),)),
        ensures r.produced().len() == self.entries().len(),
    { unimplemented!() }
    // ASSUMED (Iterator::flat_map, parametric in f): if f turns every entry into an iterator that produces
    // exactly that entry's (name, value) pairs, the flattened iterator produces all pairs, entry by entry
    #[verifier::external_body]
    pub fn flat_map<F: Fn((&'a HeaderName, &'a HeaderValues)) -> MappedValues>(self, f: F) -> (r: FlatMapped)
        requires forall|n: &HeaderName, vs: &HeaderValues| call_requires(f, ((n, vs),)),
        ensures (forall|n: &HeaderName, vs: &HeaderValues, it: MappedValues| call_ensures(f, ((n, vs),), it) ==> header_pairs(it.produced()) == pairs_of(*n, *vs))
            ==> header_pairs(r.produced()) == flat_pairs(self.entries()),
    { unimplemented!() }
}

impl AsRef<Headers> for ResponseAsync {
    // ASSUMED (impl AsRef<Headers> for ResponseAsync: the response's header map)
    #[verifier::external_body]
    fn as_ref(&self) -> (r: &Headers)
        ensures *r == self.headers_v(),
    { unimplemented!() }
}
/// a body declared empty reads as empty (http-types limits reads to the declared length) - ASSUMED
pub broadcast axiom fn empty_body_reads_empty(r: Request)
    ensures r.body_len() == Some(0nat) ==> #[trigger] r.body_content() == Ok::<Seq<u8>, HttpTypesError>(Seq::<u8>::empty());

/// http_types::Error (opaque)
#[verifier::external_body]
pub struct HttpTypesError { _p: u8 }
/// http_types::Body
#[verifier::external_body]
pub struct Body { _p: u8 }
impl Body {
    pub uninterp spec fn content(&self) -> core::result::Result<Seq<u8>, HttpTypesError>;
    // ASSUMED (http-types, async): reads the body to its end
    #[verifier::external_body]
    pub fn into_bytes(self) -> (r: core::result::Result<Vec<u8>, HttpTypesError>)
        ensures match r { Ok(b) => self.content() == Ok::<Seq<u8>, HttpTypesError>(b@), Err(e) => self.content() == Err::<Seq<u8>, HttpTypesError>(e) },
    { unimplemented!() }
}
#[derive(PartialEq, Eq, Structural, Clone, Copy)]
pub enum Method { Get, Post, Put, Delete, Head, Options, Patch, Other(u8) }
pub uninterp spec fn method_text(m: Method) -> Seq<char>;
pub uninterp spec fn url_text(u: Url) -> Seq<char>;
impl Method {
    // ASSUMED (Display for Method)
    #[verifier::external_body]
    pub fn to_string(&self) -> (r: String)
        ensures r@ == method_text(*self),
    { unimplemented!() }
}
impl Url {
    // ASSUMED (Display for Url: its serialization)
    #[verifier::external_body]
    pub fn to_string(&self) -> (r: String)
        ensures r@ == url_text(*self),
    { unimplemented!() }
}

/// crux_http::ResponseAsync (opaque)
#[verifier::external_body]
pub struct ResponseAsync { _p: u8 }
impl ResponseAsync {
    pub uninterp spec fn status_s(&self) -> StatusCode;
    pub uninterp spec fn location(&self) -> Option<HeaderValues>;
    /// the http_types::Response it wraps
    pub uninterp spec fn inner(&self) -> HttpTypesResponse;
    /// what reading the body to its end yields (Err: the reader failed)
    pub uninterp spec fn body_read(&self) -> Result<Seq<u8>>;
    pub uninterp spec fn headers_v(&self) -> Headers;
    pub uninterp spec fn version_s(&self) -> Option<Version>;
    // ASSUMED (crux_http/src/response/response_async.rs: `Self { res }`)
    #[verifier::external_body]
    pub fn new(res: HttpTypesResponse) -> (r: Self)
        ensures r.inner() == res, code_of(r.status_s()) == res.code(), r.body_read() == Ok::<Seq<u8>, HttpError>(res.body_s()),
    { unimplemented!() }
    // ASSUMED (http-types, async): reads the whole body; status, headers and version are not touched
    #[verifier::external_body]
    pub fn body_bytes(&mut self) -> (r: Result<Vec<u8>>)
        ensures
            match r { Ok(b) => old(self).body_read() == Ok::<Seq<u8>, HttpError>(b@), Err(e) => old(self).body_read() == Err::<Seq<u8>, HttpError>(e) },
            final(self).status_s() == old(self).status_s(),
            final(self).headers_v() == old(self).headers_v(),
            final(self).version_s() == old(self).version_s(),
    { unimplemented!() }
    #[verifier::external_body]
    pub fn version(&self) -> (r: Option<Version>)
        ensures r == self.version_s(),
    { unimplemented!() }

    #[verifier::external_body]
    pub fn status(&self) -> (r: StatusCode)
        ensures r == self.status_s(),
    { unimplemented!() }
    // ASSUMED (http-types): the values of the named header, if present
    #[verifier::external_body]
    pub fn header(&self, name: HeaderName) -> (r: Option<&HeaderValues>)
        ensures name is Location ==> (match r { Some(v) => self.location() == Some(*v), None => self.location() is None }),
    { unimplemented!() }
}

//@extract id=HttpError file=crux_http/src/error.rs item="enum HttpError"
//@end
pub type Result<T> = core::result::Result<T, HttpError>;
impl core::fmt::Debug for HttpError {
    #[verifier::external_body]
    fn fmt(&self, f: &mut core::fmt::Formatter<'_>) -> core::fmt::Result { unimplemented!() }
}
impl From<HttpTypesError> for HttpError {
    // ASSUMED (crux_http/src/error.rs: From<http_types::Error>)
    #[verifier::external_body]
    fn from(e: HttpTypesError) -> (r: HttpError) { unimplemented!() }
}
impl From<ParseError> for HttpError {
    // ASSUMED (crux_http/src/error.rs: From<url::ParseError>, builds HttpError::Url from the message)
    #[verifier::external_body]
    fn from(e: ParseError) -> (r: HttpError) { unimplemented!() }
}

// ------------------------------------------------------------------ ghost log
/// one request as the next stage sees it
pub struct Sent { pub url: Url, pub head: ReqHead, pub body: BodyV }
pub open spec fn sent_of(r: Request) -> Sent { Sent { url: r.url_s(), head: r.head(), body: r.body() } }

pub tracked struct HW {
    /// requests a middleware handed to `client.send` (the redirect middleware's probes), oldest first
    pub ghost probes: Seq<Sent>,
    /// what each probe was answered with (Err: the send failed)
    pub ghost answers: Seq<Result<ResponseAsync>>,
    /// requests handed to the rest of the chain with `next.run`
    pub ghost forwarded: Seq<Sent>,
    /// (middleware, request, length of the chain left for it) for each `Middleware::handle` called by `Next::run`
    pub ghost handled: Seq<(MwId, Sent, Seq<MwId>)>,
    /// requests given to the endpoint (the shell)
    pub ghost endpoint_calls: Seq<Sent>,
    /// protocol requests the endpoint handed to the effect sender (what the shell sees), oldest first
    pub ghost shell: Seq<HttpRequest>,
    /// the shell's answers to them
    pub ghost shell_answers: Seq<HttpResult>,
    /// outcome events handed to the app with update_app (value identities), oldest first
    pub ghost outcome_events: Seq<int>,
    /// the outcomes (crux_http::Result<Response<_>> values, by identity) the app's event constructor was called with
    pub ghost outcomes: Seq<int>,
}
pub uninterp spec fn val_id<T>(t: T) -> int;
/// `make_event(x)`: the app's event constructor called once with x (logged)
pub fn call_make_event<X, Ev, F: FnOnce(X) -> Ev>(Tracked(w): Tracked<&mut HW>, f: F, x: X) -> (e: Ev)
    requires call_requires(f, (x,)),
    ensures
        call_ensures(f, (x,), e),
        *final(w) == (HW { outcomes: old(w).outcomes.push(val_id(x)), ..*old(w) }),
{
    proof { w.outcomes = w.outcomes.push(val_id(x)); }
    f(x)
}
pub uninterp spec fn ev_id<Ev>(e: Ev) -> int;
// ASSUMED (core): Result::and_then calls the function on an Ok value exactly once and passes an Err through
pub assume_specification<T, E, U, F: FnOnce(T) -> core::result::Result<U, E>> [core::result::Result::<T, E>::and_then] (r: core::result::Result<T, E>, f: F) -> (out: core::result::Result<U, E>)
    requires r matches Ok(t) ==> call_requires(f, (t,)),
    ensures
        r matches Ok(t) ==> call_ensures(f, (t,), out),
        r matches Err(e) ==> out == Err::<U, E>(e);

/// `Arc<dyn EffectSender + Send + Sync>`
#[verifier::external_body]
pub struct ArcEffectSender { _p: u8 }
impl ArcEffectSender {
    // ASSUMED (EffectSender::send, async: CapabilityContext::request_from_shell): hands exactly this
    // protocol request to the shell once and yields the shell's answer, whatever that is
    #[verifier::external_body]
    pub fn send(&self, Tracked(w): Tracked<&mut HW>, effect: HttpRequest) -> (r: HttpResult)
        ensures
            final(w).shell == old(w).shell.push(effect),
            final(w).shell_answers == old(w).shell_answers.push(r),
            final(w).probes == old(w).probes, final(w).answers == old(w).answers, final(w).forwarded == old(w).forwarded,
            final(w).handled == old(w).handled, final(w).endpoint_calls == old(w).endpoint_calls,
    { unimplemented!() }
}
impl Clone for ArcEffectSender {
    // ASSUMED (Arc::clone): the same sender
    #[verifier::external_body]
    fn clone(&self) -> (r: Self)
        ensures r == *self,
    { unimplemented!() }
}
/// crux_http::Config (opaque)
#[verifier::external_body]
pub struct Config { _p: u8 }
impl Clone for Config {
    #[verifier::external_body]
    fn clone(&self) -> (r: Self)
        ensures r == *self,
    { unimplemented!() }
}
//@extract id=Client file=crux_http/src/client.rs item="struct Client"
//@rule X5.dyn-sender 1 s/effect_sender: Arc<dyn EffectSender \+ Send \+ Sync>,/pub effect_sender: ArcEffectSender,/
//@rule X5.dyn-middleware 1 s/middleware: Arc<Vec<Arc<dyn Middleware>>>,/pub middleware: std::sync::Arc<Vec<ArcMiddleware>>,/
//@rule X2.vis 1 s/\n(\s+)config: Config,/\n\1pub config: Config,/
//@end
/// `Box::pin(async move { .. })` under X17: the block it runs
pub fn pin_block<T>(t: T) -> (r: T)
    ensures r == t,
{ t }
impl Client {
    // ASSUMED (Client::send, async; proved separately below for its own chain): sends the request
    // once and yields whatever the rest of the world answers
    #[verifier::external_body]
    pub fn send(&self, Tracked(w): Tracked<&mut HW>, req: Request) -> (r: Result<ResponseAsync>)
        ensures
            final(w).probes == old(w).probes.push(sent_of(req)),
            final(w).answers == old(w).answers.push(r),
            final(w).outcome_events == old(w).outcome_events, final(w).outcomes == old(w).outcomes,
            final(w).forwarded == old(w).forwarded,
            final(w).handled == old(w).handled,
            final(w).endpoint_calls == old(w).endpoint_calls,
    { unimplemented!() }
}

// ------------------------------------------------------------------ the middleware chain
pub struct MwId { pub id: int }
/// `Arc<dyn Middleware>` (identity only)
#[verifier::external_body]
pub struct ArcMiddleware { _p: u8 }
impl ArcMiddleware {
    pub uninterp spec fn id(&self) -> MwId;
    // ASSUMED (user code behind dyn Middleware): whatever it does, `Next::run` has called it with
    // this request and this rest of the chain (logged); it may itself run the rest any number of times
    #[verifier::external_body]
    pub fn handle(&self, Tracked(w): Tracked<&mut HW>, req: Request, client: Client, next: Next<'_>) -> (r: Result<ResponseAsync>)
        ensures
            final(w).handled.len() > old(w).handled.len(),
            old(w).handled.is_prefix_of(final(w).handled),
            final(w).handled[old(w).handled.len() as int] == (self.id(), sent_of(req), ids_of(next.next_middleware@)),
            old(w).endpoint_calls.is_prefix_of(final(w).endpoint_calls),
    { unimplemented!() }
}
impl Clone for ArcMiddleware {
    // ASSUMED (Arc::clone): the same middleware
    #[verifier::external_body]
    fn clone(&self) -> (r: Self)
        ensures r == *self,
    { unimplemented!() }
}
pub open spec fn ids_of(s: Seq<ArcMiddleware>) -> Seq<MwId> { s.map(|_i: int, m: ArcMiddleware| m.id()) }

/// `&dyn Fn(Request, Client) -> BoxFuture<Result<ResponseAsync>>`: the end of the chain
#[verifier::external_body]
pub struct Endpoint { _p: u8 }
impl Endpoint {
    // ASSUMED: calling the endpoint closure once is one trip to the shell (its body is the
    // closure built in Client::send, under contract below)
    #[verifier::external_body]
    pub fn call(&self, Tracked(w): Tracked<&mut HW>, req: Request, client: Client) -> (r: Result<ResponseAsync>)
        ensures
            final(w).endpoint_calls == old(w).endpoint_calls.push(sent_of(req)),
            final(w).handled == old(w).handled,
            final(w).probes == old(w).probes,
            final(w).answers == old(w).answers,
            final(w).forwarded == old(w).forwarded,
    { unimplemented!() }
}

//@extract id=Next file=crux_http/src/middleware.rs item="struct Next"
//@rule X5.dyn-middleware 1 s/&'a \[Arc<dyn Middleware>\]/&'a [ArcMiddleware]/
//@rule X5.dyn-endpoint 1 s/&'a \(dyn \(Fn\(Request, Client\) -> BoxFuture<'static, Result<ResponseAsync>>\)\s*\+ Send\s*\+ Sync\s*\+ 'static\)/&'a Endpoint/
//@rule X2.vis * s/\n(\s+)(next_middleware|endpoint):/\n\1pub \2:/
//@contract
#[derive(Copy, Clone)]
//@end

impl<'a> Next<'a> {
//@extract id=Next::run file=crux_http/src/middleware.rs within="impl<'a> Next<'a>" item="fn run" props=C16
//@expect pub fn run(mut self, req: Request, client: Client) -> BoxFuture<'a, Result<ResponseAsync>>
//@sig pub fn run(self, Tracked(w): Tracked<&mut HW>, req: Request, client: Client) -> (r: Result<ResponseAsync>)
//@contract
        ensures
            self.next_middleware@.len() > 0 ==> final(w).handled.len() > old(w).handled.len() && final(w).handled[old(w).handled.len() as int] == (self.next_middleware@[0].id(), sent_of(req), ids_of(self.next_middleware@.subrange(1, self.next_middleware@.len() as int))), // [C16/Next::run/the-first-remaining-middleware-gets-the-request-and-exactly-the-rest-of-the-chain]
            self.next_middleware@.len() == 0 ==> final(w).endpoint_calls == old(w).endpoint_calls.push(sent_of(req)) && final(w).handled == old(w).handled, // [C16/Next::run/an-empty-chain-reaches-the-shell-exactly-once-with-the-request-unchanged]
            old(w).endpoint_calls.is_prefix_of(final(w).endpoint_calls),
//@rule X19.mut-self * s/\bself\b/this/
//@rule X6.world 1 s/\b(\w+)\.handle\(/\1.handle(Tracked(w), /
//@rule X6.world 1 s/\(this\.endpoint\)\(/this.endpoint.call(Tracked(w), /
//@entry
        let mut this = self;
//@end
}

impl Next<'_> {
    // ASSUMED view of `next.run(req, client).await` from inside a middleware: the rest of the chain
    // is run once with this request (Next::run itself is proved above)
    #[verifier::external_body]
    pub fn run_rest(self, Tracked(w): Tracked<&mut HW>, req: Request, client: Client) -> (r: Result<ResponseAsync>)
        ensures
            final(w).forwarded == old(w).forwarded.push(sent_of(req)),
            final(w).probes == old(w).probes,
            final(w).answers == old(w).answers,
    { unimplemented!() }
}

// ------------------------------------------------------------------ the redirect middleware
//@extract id=REDIRECT_CODES file=crux_http/src/middleware/redirect.rs item="const REDIRECT_CODES" optional=1
//@rule X1.const-contract 1 s~const REDIRECT_CODES: &(?:'static )?\[StatusCode\] = (&\[[^;]*\]);~exec const REDIRECT_CODES: &'static [StatusCode]\n    ensures forall|s: StatusCode| REDIRECT_CODES@.contains(s) <==> is_redirect(s), // [C16/REDIRECT_CODES/exactly-the-five-documented-redirect-statuses]\n{ let c: &'static [StatusCode] = \1; proof { redirect_codes_lemma(c@); } c }~
//@end

proof fn redirect_codes_lemma(c: Seq<StatusCode>)
    ensures
        c == seq![StatusCode::MovedPermanently, StatusCode::Found, StatusCode::SeeOther, StatusCode::TemporaryRedirect, StatusCode::PermanentRedirect]
            ==> forall|s: StatusCode| c.contains(s) <==> is_redirect(s),
{
    if c == seq![StatusCode::MovedPermanently, StatusCode::Found, StatusCode::SeeOther, StatusCode::TemporaryRedirect, StatusCode::PermanentRedirect] {
        assert(c[0] == StatusCode::MovedPermanently);
        assert(c[1] == StatusCode::Found);
        assert(c[2] == StatusCode::SeeOther);
        assert(c[3] == StatusCode::TemporaryRedirect);
        assert(c[4] == StatusCode::PermanentRedirect);
    }
}

//@extract id=Redirect file=crux_http/src/middleware/redirect.rs item="struct Redirect"
//@rule X2.vis * s/\n(\s+)(attempts):/\n\1pub \2:/
//@end

/// Where a request that went to `cur` and was answered with `a` goes next: a redirect answer with
/// a Location moves it to `resolve(cur, location)`; anything else leaves it where it is.
pub open spec fn step(cur: Url, a: Result<ResponseAsync>) -> Url {
    match a {
        Ok(res) => if is_redirect(res.status_s()) {
            match res.location() {
                Some(l) => match resolve(cur, last_value_str(l)) { Ok(u) => u, Err(_) => cur },
                None => cur,
            }
        } else { cur },
        Err(_) => cur,
    }
}
pub open spec fn answered_redirect(a: Result<ResponseAsync>) -> bool {
    a matches Ok(res) && is_redirect(res.status_s())
}
/// where the request stands after the probes `n0..` of the log: at its own URL before the first
/// probe, else one step from where the last probe went
pub open spec fn stands_at(start: Url, w: HW, n0: int) -> Url {
    if w.probes.len() <= n0 { start } else { step(w.probes.last().url, w.answers.last()) }
}

impl Redirect {
//@extract id=Redirect::handle file=crux_http/src/middleware/redirect.rs within="impl Middleware for Redirect" item="fn handle" props=C16
//@expect async fn handle( &self, mut req: Request, client: Client, next: Next<'_>, ) -> Result<ResponseAsync>
//@sig fn handle(&self, Tracked(w): Tracked<&mut HW>, req: Request, client: Client, next: Next<'_>) -> (r: Result<ResponseAsync>)
//@attr #[verifier::exec_allows_no_decreases_clause]
//@bind BASE let (?:mut )?(\w+) = req\.url\(\)\.clone\(\);
//@contract
        requires
            old(w).probes.len() == old(w).answers.len(),
        ensures
            final(w).probes.len() == final(w).answers.len(),
            final(w).probes.len() - old(w).probes.len() <= self.attempts, // [C16/Redirect::handle/at-most-the-configured-number-of-redirects-is-followed]
            old(w).probes.is_prefix_of(final(w).probes) && old(w).answers.is_prefix_of(final(w).answers),
            forall|i: int| old(w).probes.len() <= i < final(w).probes.len() ==> (#[trigger] final(w).probes[i]).head == req.head() && final(w).probes[i].body == empty_body(), // [C16/Redirect::handle/every-probe-is-a-body-less-copy-of-the-request]
            final(w).probes.len() > old(w).probes.len() ==> final(w).probes[old(w).probes.len() as int].url == req.url_s(), // [C16/Redirect::handle/the-first-probe-goes-to-the-requests-own-url]
            forall|i: int| old(w).probes.len() < i < final(w).probes.len() ==> (#[trigger] final(w).probes[i]).url == step(final(w).probes[i - 1].url, final(w).answers[i - 1]), // [C16/Redirect::handle/each-probe-goes-to-the-location-resolved-against-the-url-that-answered]
            forall|i: int| old(w).answers.len() <= i < final(w).answers.len() - 1 ==> answered_redirect(#[trigger] final(w).answers[i]), // [C16/Redirect::handle/probing-stops-at-the-first-answer-that-is-not-a-redirect]
            r is Ok && final(w).probes.len() - old(w).probes.len() < self.attempts && final(w).answers.len() > old(w).answers.len() ==> !answered_redirect(final(w).answers.last()), // [C16/Redirect::handle/with-attempts-left-the-last-probe-was-not-a-redirect]
            r is Ok && self.attempts > 0 ==> final(w).answers.len() > old(w).answers.len(), // [C16/Redirect::handle/with-attempts-configured-the-request-is-probed-first]
            r is Ok ==> final(w).forwarded.len() == old(w).forwarded.len() + 1, // [C16/Redirect::handle/the-rest-of-the-chain-is-run-exactly-once]
            r is Ok ==> final(w).forwarded.last().head == req.head() && final(w).forwarded.last().body == req.body(), // [C16/Redirect::handle/the-original-request-with-its-body-is-what-is-finally-sent]
            r is Ok ==> final(w).forwarded.last().url == stands_at(req.url_s(), *final(w), old(w).probes.len() as int), // [C16/Redirect::handle/the-final-request-goes-to-the-last-resolved-location]
            r is Err ==> final(w).forwarded.len() <= old(w).forwarded.len() + 1,
            old(w).forwarded.is_prefix_of(final(w).forwarded),
//@loops 1
//@loop 1
            invariant_except_break
                forall|i: int| old(w).answers.len() <= i < w.answers.len() ==> answered_redirect(#[trigger] w.answers[i]),
            invariant
                redirect_count <= self.attempts,
                old(w).probes.len() == old(w).answers.len(),
                w.probes.len() == w.answers.len(),
                w.probes.len() == old(w).probes.len() + redirect_count,
                old(w).probes.is_prefix_of(w.probes) && old(w).answers.is_prefix_of(w.answers),
                w.forwarded == old(w).forwarded,
                this.head() == req.head() && this.body() == req.body(),
                forall|i: int| old(w).probes.len() <= i < w.probes.len() ==> (#[trigger] w.probes[i]).head == req.head() && w.probes[i].body == empty_body(),
                w.probes.len() > old(w).probes.len() ==> w.probes[old(w).probes.len() as int].url == req.url_s(),
                forall|i: int| old(w).probes.len() < i < w.probes.len() ==> (#[trigger] w.probes[i]).url == step(w.probes[i - 1].url, w.answers[i - 1]),
                this.url_s() == stands_at(req.url_s(), *w, old(w).probes.len() as int), // [C16/Redirect::handle/loop/the-request-stands-at-the-location-resolved-against-the-url-that-answered]
                $BASE == this.url_s(), // [C16/Redirect::handle/loop/relative-locations-are-resolved-against-the-current-url]
            ensures
                forall|i: int| old(w).answers.len() <= i < w.answers.len() - 1 ==> answered_redirect(#[trigger] w.answers[i]),
                redirect_count < self.attempts && w.answers.len() > old(w).answers.len() ==> !answered_redirect(w.answers.last()),
                self.attempts > 0 ==> w.answers.len() > old(w).answers.len(),
//@rule X19.mut-req * s/\breq\b(?!\.url_s|\.head|\.body)/this/
//@rule X17.await * s/\s*\.await\b//
//@rule X6.world * s/client\.send\(/client.send(Tracked(w), /
//@rule X6.world 1 s/next\.run\(/next.run_rest(Tracked(w), /
//@entry
        let mut this = req;
//@end
}

// ------------------------------------------------------------------ C15: the shell's answer
//@extract id=HttpHeader file=crux_http/src/protocol.rs item="struct HttpHeader"
//@end
//@extract id=HttpResponse file=crux_http/src/protocol.rs item="struct HttpResponse"
//@end
//@extract id=HttpRequest file=crux_http/src/protocol.rs item="struct HttpRequest"
//@end
//@extract id=HttpResult file=crux_http/src/protocol.rs item="enum HttpResult"
//@end

// ASSUMED: the real types derive Clone; a derived clone is a structural copy
impl Clone for HttpHeader { #[verifier::external_body] fn clone(&self) -> (r: Self) ensures r == *self { unimplemented!() } }
impl Clone for HttpRequest { #[verifier::external_body] fn clone(&self) -> (r: Self) ensures r == *self { unimplemented!() } }
impl Clone for HttpResponse { #[verifier::external_body] fn clone(&self) -> (r: Self) ensures r == *self { unimplemented!() } }
impl Clone for HttpResult { #[verifier::external_body] fn clone(&self) -> (r: Self) ensures r == *self { unimplemented!() } }
impl Clone for HttpError { #[verifier::external_body] fn clone(&self) -> (r: Self) ensures r == *self { unimplemented!() } }

pub open spec fn header_pairs(h: Seq<HttpHeader>) -> Seq<(Seq<char>, Seq<char>)> {
    h.map(|_i: int, x: HttpHeader| (x.name@, x.value@))
}

//@extract id=From<HttpResponse> file=crux_http/src/protocol.rs within="impl From<HttpResponse> for crate::ResponseAsync" item="fn from" props=C15
//@expect fn from(effect_response: HttpResponse) -> Self
//@sig fn response_from(effect_response: HttpResponse) -> (r: ResponseAsync)
//@bind RES let mut (\w+) = http_types::Response::new
//@contract
    ensures
        r.inner().code() == effect_response.status, // [C15/From<HttpResponse>/the-same-status]
        r.inner().body_s() == effect_response.body@, // [C15/From<HttpResponse>/the-same-body-bytes]
        r.inner().appended() == header_pairs(effect_response.headers@), // [C15/From<HttpResponse>/every-header-value-in-the-order-given]
//@rule X7.self 1 s/(?:crate::ResponseAsync|Self)::new\(/ResponseAsync::new(/
//@rule X1.for-iterator 1 s/for (\w+) in effect_response\.headers \{/for \1 in it: effect_response.headers {/
//@rule X1.callsite-label 1 s~(http_types::Response::new\(effect_response\.status\);)~\1 // [C15/From<HttpResponse>/a-status-code-http-types-has-no-name-for-does-not-panic]~
//@loops 1
//@loop 1
        invariant
            $RES.code() == effect_response.status,
            $RES.body_s() == effect_response.body@,
            $RES.appended() == header_pairs(effect_response.headers@.take(it.index@ as int)),
//@end

//@extract id=Response file=crux_http/src/response/response.rs item="struct Response"
//@rule X2.vis * s/\n(\s+)(version|status|headers|body):/\n\1pub \2:/
//@rule X2.inline-attr * s/#\[serde\([^\]]*\)\]\s*//
//@end

//@extract id=Response::new file=crux_http/src/response/response.rs within="impl<Body> Response<Body>" item="fn new" props=C15
//@expect pub(crate) async fn new(mut res: super::ResponseAsync) -> crate::Result<Response<Vec<u8>>>
//@sig fn response_new(res: ResponseAsync) -> (r: Result<Response<Vec<u8>>>)
//@contract
    ensures
        res.body_read() is Err ==> r is Err && r->Err_0 == res.body_read()->Err_0, // [C15/Response::new/a-body-that-cannot-be-read-is-an-error-value]
        res.body_read() is Ok && 400 <= code_of(res.status_s()) < 600 ==> r is Err && (r->Err_0 matches HttpError::Http { code, message, body } && code == res.status_s() && (body matches Some(b) && b@ == res.body_read()->Ok_0)), // [C15/Response::new/4xx-and-5xx-become-an-http-error-carrying-the-status-and-the-body]
        res.body_read() is Ok && !(400 <= code_of(res.status_s()) < 600) ==> r is Ok && r->Ok_0.status == res.status_s() && r->Ok_0.headers == res.headers_v() && r->Ok_0.version == res.version_s() && (r->Ok_0.body matches Some(b) && b@ == res.body_read()->Ok_0), // [C15/Response::new/every-other-status-is-a-success-carrying-the-same-status-headers-and-body]
//@rule X19.mut-res * s/\bres\b(?!\.body_read|\.status_s|\.headers_v|\.version_s)/this/
//@rule X17.await * s/\s*\.await\b//
//@rule X7.crate * s/crate::HttpError::Http/HttpError::Http/
//@entry
    let mut this = res;
//@end

// ------------------------------------------------------------------ C14: what reaches the shell
//@extract id=into_protocol_request file=crux_http/src/protocol.rs within="impl ProtocolRequestBuilder for crate::Request" item="fn into_protocol_request" props=C14
//@expect async fn into_protocol_request(mut self) -> crate::Result<HttpRequest>
//@sig fn into_protocol_request(req: Request) -> (r: Result<HttpRequest>)
//@contract
    ensures
        req.body_content() is Ok ==> r is Ok, // [C14/into_protocol_request/a-readable-body-always-gives-a-request]
        r is Ok ==> req.body_content() is Ok && r->Ok_0.body@ == req.body_content()->Ok_0, // [C14/into_protocol_request/the-body-bytes-are-the-ones-the-app-specified]
        r is Ok ==> r->Ok_0.method@ == method_text(req.method_s()), // [C14/into_protocol_request/the-method-is-the-one-the-app-specified]
        r is Ok ==> r->Ok_0.url@ == url_text(req.url_s()), // [C14/into_protocol_request/the-absolute-url-including-its-query-is-the-one-the-app-specified]
        r is Ok ==> header_pairs(r->Ok_0.headers@) == req.header_pairs(), // [C14/into_protocol_request/every-value-of-every-header-and-nothing-else]
//@rule X19.mut-self * s/\bself\b/this/
//@rule X17.await * s/\s*\.await\b//
//@bind HNAME \.(?:flat_map|map)\(\|\((\w+), \w+\)\|
//@rule X1.closure-contract * closure#\b(?!this)\w+\.iter\(\)\s*\.map\(#|$x: &HeaderValue| -> (h: HttpHeader) ensures h.name@ == $HNAME.text() && h.value@ == $x.text() // [C14/into_protocol_request/each-protocol-header-is-the-name-and-one-value-as-given]\n#
//@rule X1.closure-contract.per-name * closure#this\s*\.iter\(\)\s*\.map\(#|$x: (&HeaderName, &HeaderValues)| -> (h: HttpHeader) requires $x.1.vals().len() > 0 ensures true#
//@rule X7.str-owned * s/(\w+(?:\.\w+\(\))*)\.as_str\(\)\.to_(?:owned|string)\(\)/str_to_owned(\1.as_str())/
//@rule X1.closure-contract * closure#\.flat_map\(#|$x: (&HeaderName, &HeaderValues)| -> (it: MappedValues) ensures header_pairs(it.produced()) == pairs_of(*$x.0, *$x.1) // [C14/into_protocol_request/every-value-of-a-multi-valued-header]\n#
//@entry
    broadcast use empty_body_reads_empty;
    let mut this = req;
//@end

/// C11, over the contract of into_protocol_request above (its header list is `req.header_pairs()`, the
/// pairs in the header map's ITERATION order): would two requests with the same header contents give
/// the same header list? Only if the iteration order were a function of the contents - for a HashMap
/// with per-instance random state it is not, and nothing in the code orders the list. Known finding F6.
pub open spec fn same_header_contents(a: Request, b: Request) -> bool {
    a.entries().to_multiset() == b.entries().to_multiset()
}
proof fn the_protocol_request_is_a_function_of_the_requests_contents(a: Request, b: Request)
    requires same_header_contents(a, b),
    ensures a.header_pairs() == b.header_pairs(), // [C11/into_protocol_request/lemma/the-header-list-sent-to-the-shell-does-not-depend-on-the-header-maps-iteration-order]
{
}

// ------------------------------------------------------------------ the end of the chain: one trip to the shell
//@extract id=Client::send::endpoint file=crux_http/src/client.rs within="impl Client" item="fn send" closure="Next::new\(&\w+, &" props=C14+C15+C16
//@expect |$x, $y|
//@sig fn endpoint(Tracked(w): Tracked<&mut HW>, $x: Request, $y: Client) -> (r: Result<ResponseAsync>)
//@contract
    requires
        $x.body_content() is Ok, // (a body that cannot be read panics here: `expect("Failed to create request")` - stated, not decided)
    ensures
        final(w).shell.len() == old(w).shell.len() + 1 && old(w).shell.is_prefix_of(final(w).shell), // [C14+C16/endpoint/the-shell-is-reached-exactly-once-per-invocation]
        final(w).shell.last().method@ == method_text($x.method_s()) && final(w).shell.last().url@ == url_text($x.url_s()) && final(w).shell.last().body@ == $x.body_content()->Ok_0 && header_pairs(final(w).shell.last().headers@) == $x.header_pairs(), // [C14/endpoint/what-reaches-the-shell-is-exactly-the-request-it-was-given]
        final(w).shell_answers.len() == old(w).shell_answers.len() + 1,
        final(w).shell_answers.last() matches HttpResult::Err(e) ==> r == Err::<ResponseAsync, HttpError>(e), // [C15/endpoint/an-error-reported-by-the-shell-is-passed-through-unchanged]
        final(w).shell_answers.last() matches HttpResult::Ok(res) ==> (r matches Ok(a) && a.inner().code() == res.status && a.inner().body_s() == res.body@ && a.inner().appended() == header_pairs(res.headers@)), // [C15/endpoint/a-response-from-the-shell-becomes-a-response-with-the-same-status-headers-and-body]
//@rule X17.pin-async 1 s/Box::pin\(async move \{/pin_block({/
//@rule X17.await * s/\s*\.await\b//
//@rule X7.trait-method 1 s/(\w+)\s*\.into_protocol_request\(\)/into_protocol_request(\1)/
//@rule X6.world * s/\.effect_sender\.send\(/.effect_sender.send(Tracked(w), /
//@rule X7.into 1 s/Ok\((\w+)\.into\(\)\)/Ok(response_from(\1))/
//@end

// ------------------------------------------------------------------ C15: exactly one outcome per result (capability API)
/// crux_core::capability::CapabilityContext<HttpRequest, Event> as this API uses it
#[verifier::external_body]
#[verifier::accept_recursive_types(Event)]
pub struct CapabilityContext<Event> { _p: core::marker::PhantomData<Event> }
impl<Event> CapabilityContext<Event> {
    // ASSUMED (proved in unit Q: CapabilityContext::update_app sends exactly one event)
    #[verifier::external_body]
    pub fn update_app(&self, event: Event, Tracked(w): Tracked<&mut HW>)
        ensures
            final(w).outcome_events == old(w).outcome_events.push(ev_id(event)),
            final(w).probes == old(w).probes, final(w).answers == old(w).answers, final(w).outcomes == old(w).outcomes,
    { unimplemented!() }
    // X17: the task handed to spawn has, in the projection, already run to its end
    pub fn spawn(&self, _task: ()) {}
}
impl<Event> Clone for CapabilityContext<Event> {
    #[verifier::external_body]
    fn clone(&self) -> (r: Self) { unimplemented!() }
}
pub struct Http<Event> { pub context: CapabilityContext<Event>, pub client: Client }
pub enum CapOrClient<Event> { Client(Client), Capability(Http<Event>) }
/// `Box<dyn ResponseExpectation<Body = ExpectBody> + Send>`: the body expectation (bytes / string / JSON)
#[verifier::external_body]
#[verifier::accept_recursive_types(ExpectBody)]
pub struct BoxedExpectation<ExpectBody> { _p: core::marker::PhantomData<ExpectBody> }
impl<ExpectBody> BoxedExpectation<ExpectBody> {
    /// what the expectation makes of a response (encoding_rs / serde_json: uninterpreted)
    pub uninterp spec fn decoded(&self, resp: Response<Vec<u8>>) -> Result<Response<ExpectBody>>;
    #[verifier::external_body]
    pub fn decode(&self, resp: Response<Vec<u8>>) -> (r: Result<Response<ExpectBody>>)
        ensures r == self.decoded(resp),
    { unimplemented!() }
}
pub struct RequestBuilder<Event, ExpectBody> {
    pub req: Option<Request>,
    pub cap_or_client: CapOrClient<Event>,
    pub expectation: BoxedExpectation<ExpectBody>,
}
impl<Event, ExpectBody> RequestBuilder<Event, ExpectBody> {
//@extract id=RequestBuilder::send file=crux_http/src/request_builder.rs within="impl<Event, ExpectBody> RequestBuilder<Event, ExpectBody>" item="fn send" props=C15
//@expect pub fn send<F>(self, make_event: F) where F: FnOnce(crate::Result<Response<ExpectBody>>) -> Event + Send + 'static,
//@sig fn send<F>(self, Tracked(w): Tracked<&mut HW>, make_event: F) where F: FnOnce(Result<Response<ExpectBody>>) -> Event
//@contract
        requires
            self.cap_or_client is Capability, // (a middleware-context builder panics here, explicitly)
            self.req is Some,
            old(w).probes.len() == old(w).answers.len(),
            forall|x: Result<Response<ExpectBody>>| call_requires(make_event, (x,)),
        ensures
            final(w).probes.len() == old(w).probes.len() + 1, // [C15/RequestBuilder::send/the-request-is-sent-exactly-once]
            final(w).outcome_events.len() == old(w).outcome_events.len() + 1, // [C15/RequestBuilder::send/every-result-yields-exactly-one-outcome-event]
            final(w).outcomes.len() == old(w).outcomes.len() + 1, // [C15/RequestBuilder::send/the-event-constructor-is-called-exactly-once]
            final(w).answers.last() matches Err(e) ==> final(w).outcomes.last() == val_id(Err::<Response<ExpectBody>, HttpError>(e)), // [C15/RequestBuilder::send/an-error-from-the-chain-is-passed-to-the-app-unchanged]
//@rule X17.async-block 1 s/async move \{/{/
//@rule X17.await * s/\s*\.await\b//
//@rule X6.world * s/\.client\.send\(/.client.send(Tracked(w), /
//@rule X6.world * s/\.update_app\(([^;]*)\);/.update_app(\1, Tracked(w));/
//@rule X6.world * s/\bmake_event\(/call_make_event(Tracked(w), make_event, /
//@rule X7.turbofish 1 s/Response::<Vec<u8>>::new\(/response_new(/
//@rule X1.closure-contract 1 closure#\.and_then\(#|$x: Response<Vec<u8>>| -> (d: Result<Response<ExpectBody>>) ensures d == self.expectation.decoded($x) // [C15/RequestBuilder::send/a-classified-response-is-decoded-by-the-body-expectation-exactly-once]\n#
//@end
}

// ------------------------------------------------------------------ C14/C15: the command API's task (command::RequestBuilder::build)
/// crux_http::command::RequestBuilder, as far as its task looks at it
pub struct CmdRequestBuilder<ExpectBody> { pub expectation: BoxedExpectation<ExpectBody> }
/// crux_core::command::CommandContext (opaque here)
#[verifier::external_body]
pub struct CmdContext { _p: u8 }
// ASSUMED (`Command::request_from_shell(operation).into_future(ctx).await`; the constructor is proved in
// unit X, the continuation in Kani unit A): hands exactly this operation to the shell once and yields
// the shell's answer, whatever that is
#[verifier::external_body]
pub fn shell_request(Tracked(w): Tracked<&mut HW>, operation: HttpRequest, ctx: CmdContext) -> (r: HttpResult)
    ensures
        final(w).shell == old(w).shell.push(operation),
        final(w).shell_answers == old(w).shell_answers.push(r),
{ unimplemented!() }

//@extract id=command::RequestBuilder::build::task file=crux_http/src/command.rs within="impl<Effect, Event, ExpectBody> RequestBuilder<Effect, Event, ExpectBody>" item="fn build" closure="command::RequestBuilder::new\(" props=C14+C15
//@expect |$x| async move
//@sig fn command_build_task<ExpectBody>(Tracked(w): Tracked<&mut HW>, this: CmdRequestBuilder<ExpectBody>, req: Request, $x: CmdContext) -> (r: Result<Response<ExpectBody>>)
//@contract
    requires
        req.body_content() is Ok, // (a body that cannot be read panics here: `expect(..)` - stated, not decided)
    ensures
        final(w).shell.len() == old(w).shell.len() + 1 && old(w).shell.is_prefix_of(final(w).shell), // [C14/command-build/exactly-one-request-effect]
        final(w).shell.last().method@ == method_text(req.method_s()) && final(w).shell.last().url@ == url_text(req.url_s()) && final(w).shell.last().body@ == req.body_content()->Ok_0 && header_pairs(final(w).shell.last().headers@) == req.header_pairs(), // [C14/command-build/what-reaches-the-shell-is-exactly-the-request-the-app-described]
        final(w).shell_answers.len() == old(w).shell_answers.len() + 1,
        final(w).shell_answers.last() matches HttpResult::Err(e) ==> r == Err::<Response<ExpectBody>, HttpError>(e), // [C15/command-build/an-error-reported-by-the-shell-is-passed-through-unchanged]
//@rule X19.captured-self * s/\bself\b/this/
//@rule X17.await * s/\s*\.await\b//
//@rule X7.trait-method 1 s/(\w+)\s*\.into_protocol_request\(\)/into_protocol_request(\1)/
//@rule X6.world 1 s/Command::request_from_shell\((\w+)\)\s*\.into_future\((\w+)\)/shell_request(Tracked(w), \1, \2)/
//@rule X7.turbofish 1 s/Response::<Vec<u8>>::new\((\w+)\.into\(\)\)/response_new(response_from(\1))/
//@rule X1.closure-contract 1 closure#\.and_then\(#|$x: Response<Vec<u8>>| -> (d: Result<Response<ExpectBody>>) ensures d == this.expectation.decoded($x) // [C15/command-build/a-classified-response-is-decoded-by-the-body-expectation-exactly-once]\n#
//@end

// ------------------------------------------------------------------ C16: the chain Client::send builds
// `mw.extend(middleware.iter().cloned())` / `mw.extend(req_mw)` - ASSUMED (Vec::extend): appends, in order
#[verifier::external_body]
pub fn extend_cloned(v: &mut Vec<ArcMiddleware>, from: &Vec<ArcMiddleware>)
    ensures final(v)@ == old(v)@ + from@,
{ unimplemented!() }
#[verifier::external_body]
pub fn extend_owned(v: &mut Vec<ArcMiddleware>, from: Vec<ArcMiddleware>)
    ensures final(v)@ == old(v)@ + from@,
{ unimplemented!() }
/// the endpoint closure `&|req, client| { .. }` handed to Next::new (its body is proved above as `endpoint`)
#[verifier::external_body]
pub fn endpoint_ref() -> (r: &'static Endpoint) { unimplemented!() }
impl From<ResponseAsync> for HttpTypesResponse {
    // ASSUMED (impl Into<http_types::Response> for ResponseAsync: `self.res`)
    #[verifier::external_body]
    fn from(r: ResponseAsync) -> (out: HttpTypesResponse) { unimplemented!() }
}
/// the whole chain a request runs through: the client's middleware, then its own
pub open spec fn full_chain(c: Client, req: Request) -> Seq<ArcMiddleware> {
    match req.req_mw() { Some(m) => c.middleware@ + m, None => c.middleware@ }
}

impl<'a> Next<'a> {
//@extract id=Next::new file=crux_http/src/middleware.rs within="impl<'a> Next<'a>" item="fn new" props=C16
//@expect pub fn new( next: &'a [Arc<dyn Middleware>], endpoint: &'a (dyn (Fn(Request, Client) -> BoxFuture<'static, Result<ResponseAsync>>) + Send + Sync + 'static), ) -> Self
//@sig pub fn new(next: &'a [ArcMiddleware], endpoint: &'a Endpoint) -> (r: Self)
//@contract
        ensures r.next_middleware@ == next@ && r.endpoint == endpoint, // [C16/Next::new/the-chain-and-the-endpoint-as-given]
//@end
}

impl Client {
//@extract id=Client::send file=crux_http/src/client.rs within="impl Client" item="fn send" props=C16
//@expect pub async fn send(&self, req: impl Into<Request>) -> Result<ResponseAsync>
//@sig pub fn send_chain(&self, Tracked(w): Tracked<&mut HW>, req: Request) -> (r: Result<ResponseAsync>)
//@contract
        requires
            self.middleware@.len() < 0x7fff_ffff && (req.req_mw() matches Some(m) ==> m.len() < 0x7fff_ffff), // (fewer than 2^31 middlewares: `Vec::with_capacity(a + b)` would overflow otherwise - stated)
        ensures
            full_chain(*self, req).len() > 0 ==> final(w).handled.len() > old(w).handled.len() && final(w).handled[old(w).handled.len() as int].0 == full_chain(*self, req)[0].id() && final(w).handled[old(w).handled.len() as int].2 == ids_of(full_chain(*self, req).subrange(1, full_chain(*self, req).len() as int)), // [C16/Client::send/client-middleware-first-then-per-request-middleware-then-the-shell]
            full_chain(*self, req).len() > 0 ==> final(w).handled[old(w).handled.len() as int].1 == (Sent { url: req.url_s(), head: req.head(), body: req.body() }), // [C16/Client::send/the-first-middleware-gets-the-request-as-the-app-built-it]
            full_chain(*self, req).len() == 0 ==> final(w).endpoint_calls == old(w).endpoint_calls.push(Sent { url: req.url_s(), head: req.head(), body: req.body() }) && final(w).handled == old(w).handled, // [C16/Client::send/without-middleware-the-request-goes-straight-to-the-shell-once]
//@rule X17.await * s/\s*\.await\b//
//@rule X7.into 1 s/= req\.into\(\);/= req;/
//@rule X13.extend 1 s/(\w+)\.extend\((\w+)\.iter\(\)\.cloned\(\)\);/extend_cloned(&mut \1, &\2);/
//@rule X13.extend 1 s/(\w+)\.extend\((\w+)\);/extend_owned(&mut \1, \2);/
//@rule X5.endpoint-closure 1 block#&\|\w+,\s*\w+\|\s*#endpoint_ref()#
//@rule X7.arc-clone * s/Arc::clone\(&([\w.]+)\)/\1.clone()/
//@rule X7.arc * s/\bArc::new\(/std::sync::Arc::new(/
//@rule X6.world 1 s/\bnext\.run\(/next.run(Tracked(w), /
//@end
}


// ------------------------------------------------------------------ C11: equality of responses follows their contents

impl<Body> Response<Body> {
//@extract id=Response::eq file=crux_http/src/response/response.rs within="impl<Body> PartialEq for Response<Body>" item="fn eq" props=C11
//@expect fn eq(&self, other: &Self) -> bool
//@sig fn eq(&self, other: &Self) -> (r: bool)
//@contract
        ensures
            r ==> self.version == other.version && self.status == other.status && body_eq_s(self.body, other.body), // [C11/Response::eq/responses-that-compare-equal-have-the-same-version-status-and-body]
            r ==> self.headers.content() =~= other.headers.content(), // [C11/Response::eq/responses-that-compare-equal-have-the-same-headers]
            self.version == other.version && self.status == other.status && self.headers.content() =~= other.headers.content() && body_eq_s(self.body, other.body) ==> r, // [C11/Response::eq/responses-with-equal-contents-compare-equal]
//@rule X13.zip-all * s/self\.headers\.iter\(\)\.zip\(other\.headers\.iter\(\)\)\.all\((?:.|\n)*?\n            \)/zip_all_in_iteration_order(&self.headers, &other.headers)/
//@rule X7.body-eq 1 s/self\.body == other\.body/body_eq(&self.body, &other.body)/
//@end
}

// ------------------------------------------------------------------ C15: the body expectations keep status, headers and version
impl Response<Vec<u8>> {
    /// what reading this response's body as a string / as JSON gives (decode_body: unit D; serde_json: uninterpreted)
    pub uninterp spec fn body_string_s(&self) -> Result<String>;
    // ASSUMED here (body_string -> content_type + decode_body, proved in unit D): consumes the body and leaves
    // status, headers and version alone
    #[verifier::external_body]
    pub fn body_string(&mut self) -> (r: Result<String>)
        ensures r == old(self).body_string_s(), final(self).status == old(self).status, final(self).headers == old(self).headers, final(self).version == old(self).version,
    { unimplemented!() }
//@extract id=Response::status file=crux_http/src/response/response.rs within="impl<Body> Response<Body>" item="fn status" props=C15
//@expect pub fn status(&self) -> StatusCode
//@sig pub fn status(&self) -> (r: StatusCode)
//@contract
        ensures r == self.status, // [C15/Response::status/the-accessor-returns-the-stored-status]
//@end
//@extract id=Response::body_bytes file=crux_http/src/response/response.rs within="impl Response<Vec<u8>>" item="fn body_bytes" props=C15
//@expect pub fn body_bytes(&mut self) -> crate::Result<Vec<u8>>
//@sig pub fn body_bytes(&mut self) -> (r: Result<Vec<u8>>)
//@contract
        ensures
            old(self).body matches Some(b) ==> r == Ok::<Vec<u8>, HttpError>(b), // [C15/Response::body_bytes/a-stored-body-is-returned-as-it-is]
            old(self).body is None ==> (r matches Err(HttpError::Http { code, message, body }) && code == old(self).status && body is None), // [C15/Response::body_bytes/a-body-already-taken-is-an-error-value-carrying-the-status]
            final(self).body is None && final(self).status == old(self).status && final(self).headers == old(self).headers && final(self).version == old(self).version, // [C15/Response::body_bytes/the-body-is-taken-and-status-headers-version-stay]
//@rule X1.closure-contract.nullary 1 s~ok_or_else\(\|\|\s*(crate::HttpError::Http\s*\{[^}]*\})\s*\)~ok_or_else(|| -> (e: HttpError) ensures e matches HttpError::Http { code, message, body } && code == self.status && body is None { \1 })~
//@end
//@extract id=Response::body_json file=crux_http/src/response/response.rs within="impl Response<Vec<u8>>" item="fn body_json" props=C15
//@expect pub fn body_json<T: DeserializeOwned>(&mut self) -> crate::Result<T>
//@sig pub fn body_json<T: DeserializeOwned>(&mut self) -> (r: Result<T>)
//@contract
        ensures
            old(self).body matches Some(b) ==> r == json_result::<T>(b@), // [C15/Response::body_json/exactly-the-body-bytes-go-to-the-json-deserializer-and-its-answer-or-error-comes-back]
            old(self).body is None ==> (r matches Err(HttpError::Http { code, message, body }) && code == old(self).status && body is None), // [C15/Response::body_json/a-body-already-taken-is-an-error-value-carrying-the-status]
            final(self).status == old(self).status && final(self).headers == old(self).headers && final(self).version == old(self).version, // [C15/Response::body_json/reading-the-body-leaves-status-headers-version-alone]
//@end
}
/// serde::de::DeserializeOwned (marker)
pub trait DeserializeOwned {}
/// serde_json::Error (opaque)
#[verifier::external_body]
pub struct SerdeJsonError { _p: u8 }
/// what serde_json makes of these bytes for the type T (third-party, uninterpreted)
pub uninterp spec fn json_from_slice_s<T>(b: Seq<u8>) -> core::result::Result<T, SerdeJsonError>;
/// what serde_json makes of this text (nothing relates it to `json_from_slice_s`: JSON is read from the bytes)
pub uninterp spec fn json_from_str_s<T>(s: Seq<char>) -> core::result::Result<T, SerdeJsonError>;
/// crux_http/src/error.rs From<serde_json::Error>: HttpError::Json(e.to_string())
pub uninterp spec fn json_err_s(e: SerdeJsonError) -> HttpError;
/// what reading these bytes as JSON gives: serde_json's answer, its error turned into an HttpError by From
pub open spec fn json_result<T>(b: Seq<u8>) -> Result<T> {
    match json_from_slice_s::<T>(b) { Ok(v) => Ok(v), Err(e) => Err(json_err_s(e)) }
}
pub mod serde_json {
    use super::*;
    // ASSUMED (serde_json): a function of the bytes and the target type
    #[verifier::external_body]
    pub fn from_slice<T: DeserializeOwned>(v: &[u8]) -> (r: core::result::Result<T, SerdeJsonError>)
        ensures r == json_from_slice_s::<T>(v@),
    { unimplemented!() }
    // ASSUMED (serde_json::from_str; present only so that a body that parses text instead of the bytes stays within reach)
    #[verifier::external_body]
    pub fn from_str<T: DeserializeOwned>(s: &str) -> (r: core::result::Result<T, SerdeJsonError>)
        ensures r == json_from_str_s::<T>(s@),
    { unimplemented!() }
}
impl vstd::std_specs::convert::FromSpecImpl<SerdeJsonError> for HttpError {
    open spec fn obeys_from_spec() -> bool { true }
    open spec fn from_spec(e: SerdeJsonError) -> Self { json_err_s(e) }
}
impl From<SerdeJsonError> for HttpError {
    // ASSUMED (crux_http/src/error.rs: From<serde_json::Error>, builds HttpError::Json from the message)
    #[verifier::external_body]
    fn from(e: SerdeJsonError) -> (r: HttpError) { unimplemented!() }
}
// (Result::map_err: vstd's own specification)
impl<Body> Response<Body> {
//@extract id=Response::with_body file=crux_http/src/response/response.rs within="impl<Body> Response<Body>" item="fn with_body" props=C15
//@expect pub fn with_body<NewBody>(self, body: NewBody) -> Response<NewBody>
//@sig pub fn with_body<NewBody>(self, body: NewBody) -> (r: Response<NewBody>)
//@contract
        ensures r.status == self.status && r.headers == self.headers && r.version == self.version && r.body == Some(body), // [C15/Response::with_body/the-decoded-body-replaces-the-bytes-and-status-headers-version-stay]
//@end
}
//@extract id=ExpectBytes file=crux_http/src/expect.rs item="struct ExpectBytes"
//@end
//@extract id=ExpectString file=crux_http/src/expect.rs item="struct ExpectString"
//@end
// hand-declared (type only): the real field is PhantomData<fn() -> T>, a zero-sized marker Verus has no type for
pub struct ExpectJson<T> { phantom: core::marker::PhantomData<T> }
impl ExpectBytes {
//@extract id=ExpectBytes::decode file=crux_http/src/expect.rs within="impl ResponseExpectation for ExpectBytes" item="fn decode" props=C15
//@expect fn decode(&self, resp: crate::Response<Vec<u8>>) -> Result<Response<Vec<u8>>>
//@sig fn decode(&self, resp: Response<Vec<u8>>) -> (r: Result<Response<Vec<u8>>>)
//@contract
        ensures r == Ok::<Response<Vec<u8>>, HttpError>(resp), // [C15/ExpectBytes::decode/the-bytes-expectation-hands-the-response-on-unchanged]
//@end
}
impl ExpectString {
//@extract id=ExpectString::decode file=crux_http/src/expect.rs within="impl ResponseExpectation for ExpectString" item="fn decode" props=C15
//@expect fn decode(&self, mut resp: crate::Response<Vec<u8>>) -> Result<Response<String>>
//@sig fn decode(&self, resp: Response<Vec<u8>>) -> (r: Result<Response<String>>)
//@contract
        ensures
            r matches Ok(x) ==> resp.body_string_s() matches Ok(s) && x.body == Some(s) && x.status == resp.status && x.headers == resp.headers && x.version == resp.version, // [C15/ExpectString::decode/a-success-carries-the-decoded-string-and-the-same-status-headers-version]
            r matches Err(e) ==> resp.body_string_s() == Err::<String, HttpError>(e), // [C15/ExpectString::decode/a-body-that-does-not-decode-is-that-error-value]
//@entry
        let mut resp = resp;
//@end
}
impl<T: DeserializeOwned> ExpectJson<T> {
//@extract id=ExpectJson::decode file=crux_http/src/expect.rs within="impl<T> ResponseExpectation for ExpectJson<T>" item="fn decode" props=C15
//@expect fn decode(&self, mut resp: crate::Response<Vec<u8>>) -> Result<Response<T>>
//@sig fn decode(&self, resp: Response<Vec<u8>>) -> (r: Result<Response<T>>)
//@contract
        ensures
            r matches Ok(x) ==> (resp.body matches Some(b) && json_result::<T>(b@) matches Ok(s) && x.body == Some(s)) && x.status == resp.status && x.headers == resp.headers && x.version == resp.version, // [C15/ExpectJson::decode/a-success-carries-the-deserialized-value-and-the-same-status-headers-version]
            r matches Err(e) ==> (resp.body matches Some(b) ==> json_result::<T>(b@) == Err::<T, HttpError>(e)) && (resp.body is None ==> (e matches HttpError::Http { code, message, body } && code == resp.status && body is None)), // [C15/ExpectJson::decode/a-body-that-does-not-deserialize-is-that-error-value]
//@entry
        let mut resp = resp;
//@end
}

} // verus!

fn main() {}
