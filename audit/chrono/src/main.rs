//! Audits, against the real chrono 0.4.40, the contracts assumed in /verif/verus/T/unit.rs:
//!   A1 TimeDelta::nanoseconds(n)                 td_nanos(r) == n
//!   A2 TimeDelta::num_nanoseconds()              Some(n) iff i64::MIN <= td_nanos <= i64::MAX, n == td_nanos
//!   A3 DateTime::<Utc>::from_timestamp(s, ns)    Some iff in_range(s) && (ns < 1e9 || (ns < 2e9 && s % 60 == 59)); then timestamp()==s, subsec==ns
//!   A4 timestamp() / timestamp_subsec_nanos()    subsec < 2e9
//! where td_nanos is computed independently as num_seconds-floor*1e9 + subsec_nanos in i128.
//! Prints one line per contract and exits 1 on the first disagreement (with the input).
use chrono::{DateTime, TimeDelta, Utc};

fn td_nanos(t: &TimeDelta) -> i128 {
    // independent of num_nanoseconds: whole seconds (truncated toward zero) plus the signed rest
    t.num_seconds() as i128 * 1_000_000_000 + t.subsec_nanos() as i128
}

struct Rng(u64);
impl Rng {
    fn next(&mut self) -> u64 {
        // splitmix64
        self.0 = self.0.wrapping_add(0x9E3779B97F4A7C15);
        let mut z = self.0;
        z = (z ^ (z >> 30)).wrapping_mul(0xBF58476D1CE4E5B9);
        z = (z ^ (z >> 27)).wrapping_mul(0x94D049BB133111EB);
        z ^ (z >> 31)
    }
}

fn i64_grid() -> Vec<i64> {
    let mut v = vec![];
    for base in [i64::MIN, i64::MIN / 2, -1_000_000_000_000, -1_000_000_000, -60, -59, -1, 0, 1, 59, 60, 1_000_000_000, 1_000_000_000_000, i64::MAX / 2, i64::MAX] {
        for d in -3i64..=3 {
            if let Some(x) = base.checked_add(d) {
                v.push(x);
            }
        }
    }
    // the edges of chrono's calendar range (years -262143 ..= 262142)
    for base in [-8_334_601_228_800i64, 8_210_266_876_799] {
        for d in -2i64..=2 {
            v.push(base + d);
        }
    }
    v
}

fn main() {
    let seed: u64 = std::env::var("VERIF_SEED").ok().and_then(|s| s.parse().ok()).unwrap_or(0);
    let samples: usize = std::env::var("AUDIT_SAMPLES").ok().and_then(|s| s.parse().ok()).unwrap_or(200_000);
    let mut rng = Rng(seed ^ 0xC0FFEE);
    let mut ns: Vec<i64> = i64_grid();
    for _ in 0..samples {
        let x = rng.next();
        // mix magnitudes: full range, small, multiples of 1e9 +- few
        ns.push(x as i64);
        ns.push((x % 4_000_000_000) as i64 - 2_000_000_000);
        ns.push(((x >> 20) as i64 % 9_000_000_000).wrapping_mul(1_000_000_000).wrapping_add((x % 5) as i64 - 2));
    }
    let mut checked = [0usize; 4];
    for &n in &ns {
        // A1 + A2 on deltas built from nanoseconds
        let t = TimeDelta::nanoseconds(n);
        if td_nanos(&t) != n as i128 {
            println!("AUDIT-FAIL A1 TimeDelta::nanoseconds({n}): td_nanos = {}", td_nanos(&t));
            std::process::exit(1);
        }
        checked[0] += 1;
        if t.num_nanoseconds() != Some(n) {
            println!("AUDIT-FAIL A2 nanoseconds({n}).num_nanoseconds() = {:?}", t.num_nanoseconds());
            std::process::exit(1);
        }
        checked[1] += 1;
    }
    // A2 on deltas outside the i64-nanosecond range (built from seconds/milliseconds)
    for &s in &ns {
        if let Some(t) = TimeDelta::try_seconds(s / 1000) {
            let exact = td_nanos(&t);
            let fits = exact >= i64::MIN as i128 && exact <= i64::MAX as i128;
            match t.num_nanoseconds() {
                Some(n) if fits && n as i128 == exact => {}
                None if !fits => {}
                other => {
                    println!("AUDIT-FAIL A2 try_seconds({}).num_nanoseconds() = {:?}, exact = {exact}", s / 1000, other);
                    std::process::exit(1);
                }
            }
            checked[1] += 1;
        }
    }
    // A3 + A4
    let in_range = |s: i64| (-8_334_601_228_800i64..=8_210_266_876_799).contains(&s);
    let subsecs: Vec<u32> = {
        let mut v = vec![0, 1, 999_999_999, 1_000_000_000, 1_000_000_001, 1_500_000_000, 1_999_999_999, 2_000_000_000, 2_000_000_001, u32::MAX];
        for _ in 0..64 {
            v.push(rng.next() as u32);
        }
        v
    };
    for &s in &ns {
        for &sub in &subsecs {
            let expect_some = in_range(s) && (sub < 1_000_000_000 || (sub < 2_000_000_000 && s.rem_euclid(60) == 59));
            match DateTime::<Utc>::from_timestamp(s, sub) {
                Some(dt) => {
                    if !expect_some || dt.timestamp() != s || dt.timestamp_subsec_nanos() != sub || dt.timestamp_subsec_nanos() >= 2_000_000_000 {
                        println!("AUDIT-FAIL A3/A4 from_timestamp({s}, {sub}) = Some(ts {}, subsec {}), expected Some: {expect_some}", dt.timestamp(), dt.timestamp_subsec_nanos());
                        std::process::exit(1);
                    }
                }
                None => {
                    if expect_some {
                        println!("AUDIT-FAIL A3 from_timestamp({s}, {sub}) = None, contract says Some");
                        std::process::exit(1);
                    }
                }
            }
            checked[2] += 1;
        }
    }
    checked[3] = checked[2];
    println!("AUDIT-OK chrono contracts: A1 {} inputs, A2 {} inputs, A3/A4 {} inputs (seed {seed})", checked[0], checked[1], checked[2]);
}
