//! Bounded audit (Kani, real slab 0.4.9) of the contracts unit R and unit Q assume about
//! `slab::Slab`: seen through the set of occupied keys it is a partial map; `insert` picks a
//! vacant key and touches nothing else; `remove` frees exactly the addressed key and returns its
//! value; `get_mut` lends exactly the addressed entry; `len`/`contains`/`get` read the map.
//! BOUND: any sequence of at most 3 operations (symbolic kind, key and value) starting from an
//! empty slab; keys < 3. Reported as bounded, never counted as proved.
#![cfg(kani)]
use slab::Slab;

const N: usize = 3; // keys that can be in use after 3 operations

/// the abstract view the Verus units use: key -> value, for keys < N
#[derive(Clone, Copy, PartialEq)]
struct Shadow([Option<u8>; N]);

fn view(s: &Slab<u8>) -> Shadow {
    let mut a = [None; N];
    let mut k = 0;
    while k < N {
        a[k] = s.get(k).copied();
        k += 1;
    }
    Shadow(a)
}

fn step(s: &mut Slab<u8>) {
    let before = view(s);
    let key: usize = kani::any();
    kani::assume(key < N);
    let val: u8 = kani::any();
    match kani::any::<u8>() % 5 {
        0 => {
            let k = s.insert(val);
            assert!(k < N, "SLAB/insert/key-small-while-few-entries");
            assert!(before.0[k].is_none(), "SLAB/insert/returns-a-vacant-key");
            let mut expect = before;
            expect.0[k] = Some(val);
            assert!(view(s) == expect, "SLAB/insert/adds-exactly-that-entry");
        }
        1 => {
            if before.0[key].is_some() {
                let v = s.remove(key);
                assert!(Some(v) == before.0[key], "SLAB/remove/returns-the-stored-value");
                let mut expect = before;
                expect.0[key] = None;
                assert!(view(s) == expect, "SLAB/remove/frees-exactly-that-key");
            }
        }
        2 => {
            let occupied = before.0[key].is_some();
            match s.get_mut(key) {
                Some(e) => {
                    assert!(occupied && Some(*e) == before.0[key], "SLAB/get_mut/lends-the-addressed-entry");
                    *e = val;
                    let mut expect = before;
                    expect.0[key] = Some(val);
                    assert!(view(s) == expect, "SLAB/get_mut/write-through-changes-only-that-entry");
                }
                None => {
                    assert!(!occupied, "SLAB/get_mut/none-iff-vacant");
                    assert!(view(s) == before, "SLAB/get_mut/none-changes-nothing");
                }
            }
        }
        3 => {
            assert!(s.contains(key) == before.0[key].is_some(), "SLAB/contains/reads-the-domain");
            let mut n = 0;
            let mut k = 0;
            while k < N {
                if before.0[k].is_some() {
                    n += 1;
                }
                k += 1;
            }
            assert!(s.len() == n && s.is_empty() == (n == 0), "SLAB/len/counts-the-domain");
        }
        _ => {
            s.clear();
            assert!(view(s) == Shadow([None; N]), "SLAB/clear/empties");
        }
    }
}

#[kani::proof]
#[kani::unwind(5)] // BOUNDED: 3 operations, keys < 3
fn slab_is_a_partial_map_3_ops() {
    let mut s: Slab<u8> = Slab::new();
    step(&mut s);
    step(&mut s);
    step(&mut s);
    kani::cover!(s.len() == 3, "SLAB/reached/three-entries");
    kani::cover!(s.len() == 0, "SLAB/reached/empty-again");
}
