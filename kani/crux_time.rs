// Unit T (C19): harnesses compiled inside crux_time under cfg(kani).
// Every input is kani::any() over the whole machine type and no harness
// contains a loop, so a successful harness is a proof for all inputs.
//
// Label conventions (parsed by /verif/bin/check):
//   assert!(c, "C19/<fn>/<clause>")              obligation, must be SUCCESS
//   kani::cover!(true, ".../returned-normally")   forbidden cover, must be UNSATISFIABLE/UNREACHABLE
//   kani::cover!(true, ".../reached")             vacuity guard, must be SATISFIED
// In a harness whose name ends in `_reject` the only failures tolerated are
// explicit panics of the code under test (expect/unwrap/panic!); anything else
// (arithmetic overflow, a failed assert of this file) is a violation.
use crate::protocol::duration::Duration;
use crate::protocol::instant::Instant;
use std::time::{Duration as StdDuration, SystemTime};

/// Every std Duration is (secs, nanos < 10^9); `new` with such nanos is the identity.
fn any_std_duration() -> StdDuration {
    let nanos: u32 = kani::any();
    kani::assume(nanos < 1_000_000_000);
    StdDuration::new(kani::any(), nanos)
}

/// Every SystemTime at or after the epoch on this platform is UNIX_EPOCH + d for
/// exactly one std Duration d with d.secs <= i64::MAX (Timespec{tv_sec: i64, tv_nsec}).
fn any_system_time_from_epoch() -> SystemTime {
    let d = any_std_duration();
    let t = SystemTime::UNIX_EPOCH.checked_add(d);
    kani::assume(t.is_some());
    t.unwrap()
}

fn any_system_time_before_epoch() -> SystemTime {
    let d = any_std_duration();
    kani::assume(d.as_secs() != 0 || d.subsec_nanos() != 0);
    let t = SystemTime::UNIX_EPOCH.checked_sub(d);
    kani::assume(t.is_some());
    t.unwrap()
}

// ---- contracts proved on the real bodies (in-place kani::requires/ensures) ----
// Convention: `call_<x>()` draws fully symbolic arguments, calls the real function and returns
// (arguments in parameter order..., result); the contract harness is `let _ = call_<x>();`.
// /verif/bin/check reuses call_<x> to evaluate a failed `ensures` clause natively on the
// counterexample Kani produced (Kani's native playback does not evaluate contracts).

fn call_duration_new() -> (u64, Duration) {
    let nanos = kani::any();
    (nanos, Duration::new(nanos))
}
#[kani::proof_for_contract(Duration::new)]
fn t_duration_new_contract() {
    let _ = call_duration_new();
    kani::cover!(true, "C19/Duration::new/contract/reached");
}

fn call_from_millis() -> (u64, Duration) {
    let millis = kani::any();
    (millis, Duration::from_millis(millis))
}
#[kani::proof_for_contract(Duration::from_millis)]
fn t_from_millis_contract() {
    let _ = call_from_millis();
    kani::cover!(true, "C19/Duration::from_millis/contract/reached");
}

fn call_from_secs() -> (u64, Duration) {
    let seconds = kani::any();
    (seconds, Duration::from_secs(seconds))
}
#[kani::proof_for_contract(Duration::from_secs)]
fn t_from_secs_contract() {
    let _ = call_from_secs();
    kani::cover!(true, "C19/Duration::from_secs/contract/reached");
}

fn call_instant_new() -> (u64, u32, Instant) {
    let (seconds, nanos) = (kani::any(), kani::any());
    (seconds, nanos, Instant::new(seconds, nanos))
}
#[kani::proof_for_contract(Instant::new)]
fn t_instant_new_contract() {
    let _ = call_instant_new();
    kani::cover!(true, "C19/Instant::new/contract/reached");
}

fn call_from_std_duration() -> (StdDuration, Duration) {
    let d = any_std_duration();
    (d, Duration::from(d))
}
#[kani::proof_for_contract(<Duration as std::convert::From<std::time::Duration>>::from)]
fn t_from_std_duration_contract() {
    let _ = call_from_std_duration();
    kani::cover!(true, "C19/Duration::from(std)/contract/reached");
}

fn call_into_std_duration() -> (Duration, StdDuration) {
    let d = Duration {
        nanos: kani::any(),
    };
    (d, StdDuration::from(d))
}
#[kani::proof_for_contract(<std::time::Duration as std::convert::From<Duration>>::from)]
#[kani::solver(z3)] // 64-bit div/rem by 10^9: SAT back ends do not finish, SMT congruence does
fn t_into_std_duration_contract() {
    let _ = call_into_std_duration();
    kani::cover!(true, "C19/std::Duration::from(Duration)/contract/reached");
}

fn call_from_system_time() -> (SystemTime, Instant) {
    let t = any_system_time_from_epoch();
    (t, Instant::from(t))
}
#[kani::proof_for_contract(<Instant as std::convert::From<std::time::SystemTime>>::from)]
#[kani::unwind(3)] // std Timespec::sub_timespec recurses once when self < other
fn t_from_system_time_contract() {
    let _ = call_from_system_time();
    kani::cover!(true, "C19/Instant::from(SystemTime)/contract/reached");
}

fn call_into_system_time() -> (Instant, SystemTime) {
    let i = Instant {
        seconds: kani::any(),
        nanos: kani::any(),
    };
    (i, SystemTime::from(i))
}
#[kani::proof_for_contract(<std::time::SystemTime as std::convert::From<Instant>>::from)]
#[kani::unwind(3)] // std Timespec::sub_timespec recurses once when self < other
fn t_into_system_time_contract() {
    let _ = call_into_system_time();
    kani::cover!(true, "C19/SystemTime::from(Instant)/contract/reached");
}

// ---- explicit rejection outside the representable domain ----

#[kani::proof]
fn t_from_millis_reject() {
    let m: u64 = kani::any();
    kani::assume(m > u64::MAX / 1_000_000);
    kani::cover!(true, "C19/Duration::from_millis/reject/reached");
    let _r = Duration::from_millis(m);
    kani::cover!(true, "C19/Duration::from_millis/reject/returned-normally");
}

#[kani::proof]
fn t_from_secs_reject() {
    let s: u64 = kani::any();
    kani::assume(s > u64::MAX / 1_000_000_000);
    kani::cover!(true, "C19/Duration::from_secs/reject/reached");
    let _r = Duration::from_secs(s);
    kani::cover!(true, "C19/Duration::from_secs/reject/returned-normally");
}

#[kani::proof]
fn t_instant_new_reject() {
    let n: u32 = kani::any();
    kani::assume(n >= 1_000_000_000);
    kani::cover!(true, "C19/Instant::new/reject/reached");
    let _r = Instant::new(kani::any(), n);
    kani::cover!(true, "C19/Instant::new/reject/returned-normally");
}

#[kani::proof]
fn t_from_std_duration_reject() {
    let d = any_std_duration();
    // more than u64::MAX nanoseconds: 18_446_744_073.709_551_615 s
    kani::assume(
        d.as_secs() > 18_446_744_073
            || (d.as_secs() == 18_446_744_073 && d.subsec_nanos() > 709_551_615),
    );
    kani::cover!(true, "C19/Duration::from(std)/reject/reached");
    let _r = Duration::from(d);
    kani::cover!(true, "C19/Duration::from(std)/reject/returned-normally");
}

#[kani::proof]
#[kani::unwind(3)] // std Timespec::sub_timespec recurses once when self < other
fn t_from_system_time_reject() {
    let t = any_system_time_before_epoch();
    kani::cover!(true, "C19/Instant::from(SystemTime)/reject/reached");
    let _r = Instant::from(t);
    kani::cover!(true, "C19/Instant::from(SystemTime)/reject/returned-normally");
}

#[kani::proof]
#[kani::unwind(3)] // std Timespec::sub_timespec recurses once when self < other
fn t_into_system_time_reject() {
    let s: u64 = kani::any();
    let n: u32 = kani::any();
    kani::assume(n < 1_000_000_000); // a valid Instant ...
    kani::assume(s > i64::MAX as u64); // ... that SystemTime cannot hold
    kani::cover!(true, "C19/SystemTime::from(Instant)/reject/reached");
    let _r = SystemTime::from(Instant {
        seconds: s,
        nanos: n,
    });
    kani::cover!(true, "C19/SystemTime::from(Instant)/reject/returned-normally");
}

// ---- round trips (direct, over the real bodies) ----

// The two Duration round trips reduce to (n / 10^9) * 10^9 + n % 10^9 == n, which no SAT or SMT
// back end of CBMC finishes at 64 bits; they are proved by Verus as lemmas over the two contracts
// above (verus/T/lemmas.rs).

#[kani::proof]
#[kani::unwind(3)] // std Timespec::sub_timespec recurses once when self < other
fn t_roundtrip_instant_wire_std_wire() {
    let s: u64 = kani::any();
    let n: u32 = kani::any();
    kani::assume(n < 1_000_000_000 && s <= i64::MAX as u64);
    let i = Instant {
        seconds: s,
        nanos: n,
    };
    let back = Instant::from(SystemTime::from(i));
    assert!(back == i, "C19/roundtrip/Instant->SystemTime->Instant/identity");
    kani::cover!(true, "C19/roundtrip/Instant->SystemTime->Instant/reached");
}

#[kani::proof]
#[kani::unwind(3)] // std Timespec::sub_timespec recurses once when self < other
fn t_roundtrip_instant_std_wire_std() {
    let t = any_system_time_from_epoch();
    let back = SystemTime::from(Instant::from(t));
    assert!(back == t, "C19/roundtrip/SystemTime->Instant->SystemTime/identity");
    kani::cover!(true, "C19/roundtrip/SystemTime->Instant->SystemTime/reached");
}

// ---- the four chrono conversions on the REAL chrono 0.4.40: counterexample finders
// The proof of these four is Verus's, against assumed chrono contracts. Here the real chrono
// bodies run: refutations are fast (a wrapped negative delta is found in 1.5 s) and give concrete
// inputs, also for bodies that use chrono calls the Verus unit has no contract for; proofs
// through chrono's div/rem arithmetic do not finish (15 min tried), so on a correct tree these
// harnesses are reported "not finished" (never as an error, never as proved).
#[cfg(feature = "chrono")]
use chrono::{DateTime, TimeDelta, Utc};

#[cfg(feature = "chrono")]
#[kani::proof]
#[kani::solver(z3)] // OPTIONAL TIMEOUT=75 (quick tier: counterexample finder with a 75 s budget; thorough: full timeout)
fn t_chrono_timedelta_to_duration_real() {
    let n: i64 = kani::any();
    let td = TimeDelta::nanoseconds(n);
    match Duration::try_from(td) {
        Ok(d) => assert!(n >= 0 && d.nanos == n as u64, "C19/chrono-real/TimeDelta->Duration/exact-or-rejected"),
        Err(_) => assert!(n < 0, "C19/chrono-real/TimeDelta->Duration/no-spurious-rejection"),
    }
    kani::cover!(true, "C19/chrono-real/TimeDelta->Duration/reached");
}

#[cfg(feature = "chrono")]
#[kani::proof]
#[kani::solver(z3)] // OPTIONAL TIMEOUT=75 (quick tier: counterexample finder with a 75 s budget; thorough: full timeout)
fn t_chrono_duration_to_timedelta_real() {
    let n: u64 = kani::any();
    match TimeDelta::try_from(Duration { nanos: n }) {
        Ok(td) => assert!(n <= i64::MAX as u64 && td.num_nanoseconds() == Some(n as i64), "C19/chrono-real/Duration->TimeDelta/exact-or-rejected"),
        Err(_) => assert!(n > i64::MAX as u64, "C19/chrono-real/Duration->TimeDelta/no-spurious-rejection"),
    }
    kani::cover!(true, "C19/chrono-real/Duration->TimeDelta/reached");
}

#[cfg(feature = "chrono")]
#[kani::proof]
#[kani::solver(z3)] // OPTIONAL TIMEOUT=75 (quick tier: counterexample finder with a 75 s budget; thorough: full timeout)
fn t_chrono_datetime_to_instant_real() {
    let (s, ns): (i64, u32) = (kani::any(), kani::any());
    let Some(dt) = DateTime::<Utc>::from_timestamp(s, ns) else {
        return;
    };
    match Instant::try_from(dt) {
        Ok(i) => assert!(s >= 0 && i.seconds == s as u64 && i.nanos == ns && i.nanos < 1_000_000_000, "C19/chrono-real/DateTime->Instant/exact-valid-or-rejected"),
        Err(_) => assert!(s < 0 || ns >= 1_000_000_000, "C19/chrono-real/DateTime->Instant/no-spurious-rejection"),
    }
    kani::cover!(true, "C19/chrono-real/DateTime->Instant/reached");
}

#[cfg(feature = "chrono")]
#[kani::proof]
#[kani::solver(z3)] // OPTIONAL TIMEOUT=75 (quick tier: counterexample finder with a 75 s budget; thorough: full timeout)
fn t_chrono_instant_to_datetime_real() {
    let (s, ns): (u64, u32) = (kani::any(), kani::any());
    // every (seconds, nanos) pair: the derived Deserialize builds Instants that Instant::new refuses
    if let Ok(dt) = DateTime::<Utc>::try_from(Instant { seconds: s, nanos: ns }) {
        assert!(ns < 1_000_000_000, "C19/chrono-real/Instant->DateTime/an-invalid-sub-second-part-is-rejected-explicitly");
        assert!(s <= i64::MAX as u64 && dt.timestamp() == s as i64 && dt.timestamp_subsec_nanos() == ns, "C19/chrono-real/Instant->DateTime/exact-or-rejected");
    }
    kani::cover!(true, "C19/chrono-real/Instant->DateTime/reached");
}

// Concrete-playback tests generated by Kani for a failing run are written here by
// /verif/bin/check (the file is empty otherwise).
include!("/verif/work/playback/crux_time.rs");
