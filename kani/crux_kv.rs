// Unit K (C17): harnesses compiled inside crux_kv under cfg(kani).
// Every response/error variant is symbolic; payloads (value bytes, key strings, messages) are
// symbolic up to a stated small length (MAX_BYTES / 2 chars) - the functions under proof move
// payloads without inspecting them. The bound is on payload LENGTH only; it is reported as a
// bound, and the same contracts are proved for unbounded payloads by Verus (verus/K/unit.rs).
// Label conventions: see /verif/kani/crux_time.rs.
use crate::error::KeyValueError;
use crate::value::Value;
use crate::{KeyValueResponse, KeyValueResult};

const MAX_BYTES: usize = 2;

fn any_bytes() -> Vec<u8> {
    kani::vec::any_vec::<u8, MAX_BYTES>()
}

fn any_string() -> String {
    let mut s = String::new();
    if kani::any() {
        let c: u8 = kani::any();
        kani::assume(c < 128);
        s.push(c as char);
        if kani::any() {
            let d: u8 = kani::any();
            kani::assume(d < 128);
            s.push(d as char);
        }
    }
    s
}

fn any_value() -> Value {
    if kani::any() {
        Value::None
    } else {
        Value::Bytes(any_bytes())
    }
}

fn any_error() -> KeyValueError {
    match kani::any::<u8>() % 4 {
        0 => KeyValueError::Io {
            message: any_string(),
        },
        1 => KeyValueError::Timeout,
        2 => KeyValueError::CursorNotFound,
        _ => KeyValueError::Other {
            message: any_string(),
        },
    }
}

fn any_short_string() -> String {
    let mut s = String::new();
    if kani::any() {
        let c: u8 = kani::any();
        kani::assume(c < 128);
        s.push(c as char);
    }
    s
}

/// 0..=2 keys of 0..=1 characters (two 2-character keys already cost CBMC 7 minutes)
fn any_keys() -> Vec<String> {
    let mut v = Vec::new();
    if kani::any() {
        v.push(any_short_string());
        if kani::any() {
            v.push(any_short_string());
        }
    }
    v
}

/// kind: 0 Get, 1 Set, 2 Delete, 3 Exists, 4 ListKeys
fn any_response_of(kind: u8) -> KeyValueResponse {
    match kind {
        0 => KeyValueResponse::Get {
            value: any_value(),
        },
        1 => KeyValueResponse::Set {
            previous: any_value(),
        },
        2 => KeyValueResponse::Delete {
            previous: any_value(),
        },
        3 => KeyValueResponse::Exists {
            is_present: kani::any(),
        },
        _ => KeyValueResponse::ListKeys {
            keys: any_keys(),
            next_cursor: kani::any(),
        },
    }
}

fn option_of(v: Value) -> Option<Vec<u8>> {
    // the reference mapping, written independently of value.rs: absent stays absent,
    // present (including empty) stays present with the same bytes
    match v {
        Value::None => None,
        Value::Bytes(b) => Some(b),
    }
}

// ---- matching response kind: payload mapped unchanged

#[kani::proof]
#[kani::unwind(4)] // BOUNDED: payload length <= 2 (bytes, chars, keys); all variants symbolic
fn k_unwrap_get_maps_unchanged() {
    let value = any_value();
    let r = KeyValueResult::Ok {
        response: KeyValueResponse::Get {
            value: value.clone(),
        },
    }
    .unwrap_get();
    assert!(r == Ok(option_of(value.clone())), "C17/unwrap_get/value-unchanged");
    assert!(matches!(value, Value::None) == matches!(r, Ok(None)), "C17/unwrap_get/absent-distinct-from-empty");
    kani::cover!(matches!(r, Ok(Some(ref b)) if b.is_empty()), "C17/unwrap_get/empty-value/reached");
    kani::cover!(matches!(r, Ok(Some(ref b)) if b.len() == MAX_BYTES), "C17/unwrap_get/max-length-value/reached");
    kani::cover!(matches!(r, Ok(None)), "C17/unwrap_get/absent/reached");
}

#[kani::proof]
#[kani::unwind(4)] // BOUNDED: payload length <= 2 (bytes, chars, keys); all variants symbolic
fn k_unwrap_set_maps_unchanged() {
    let previous = any_value();
    let r = KeyValueResult::Ok {
        response: KeyValueResponse::Set {
            previous: previous.clone(),
        },
    }
    .unwrap_set();
    assert!(r == Ok(option_of(previous.clone())), "C17/unwrap_set/previous-unchanged");
    assert!(matches!(previous, Value::None) == matches!(r, Ok(None)), "C17/unwrap_set/absent-distinct-from-empty");
    kani::cover!(true, "C17/unwrap_set/reached");
}

#[kani::proof]
#[kani::unwind(4)] // BOUNDED: payload length <= 2 (bytes, chars, keys); all variants symbolic
fn k_unwrap_delete_maps_unchanged() {
    let previous = any_value();
    let r = KeyValueResult::Ok {
        response: KeyValueResponse::Delete {
            previous: previous.clone(),
        },
    }
    .unwrap_delete();
    assert!(r == Ok(option_of(previous.clone())), "C17/unwrap_delete/previous-unchanged");
    assert!(matches!(previous, Value::None) == matches!(r, Ok(None)), "C17/unwrap_delete/absent-distinct-from-empty");
    kani::cover!(true, "C17/unwrap_delete/reached");
}

#[kani::proof]
fn k_unwrap_exists_maps_unchanged() {
    let is_present: bool = kani::any();
    let r = KeyValueResult::Ok {
        response: KeyValueResponse::Exists { is_present },
    }
    .unwrap_exists();
    assert!(r == Ok(is_present), "C17/unwrap_exists/flag-unchanged");
    kani::cover!(true, "C17/unwrap_exists/reached");
}

#[kani::proof]
#[kani::unwind(4)] // BOUNDED: payload length <= 2 (bytes, chars, keys); all variants symbolic
fn k_unwrap_list_keys_maps_unchanged() {
    // The page is moved, so "unchanged" is checked as identity of the buffers plus the bytes of
    // each key (cloning and comparing a Vec<String> costs CBMC minutes).
    let keys = any_keys();
    let next_cursor: u64 = kani::any();
    let (ptr, len) = (keys.as_ptr(), keys.len());
    let k0 = keys.first().map(|k| (k.as_ptr(), k.len(), k.as_bytes().first().copied()));
    let k1 = keys.get(1).map(|k| (k.as_ptr(), k.len(), k.as_bytes().first().copied()));
    let r = KeyValueResult::Ok {
        response: KeyValueResponse::ListKeys { keys, next_cursor },
    }
    .unwrap_list_keys();
    let Ok((rkeys, rcursor)) = r else {
        panic!("C17/unwrap_list_keys/ok-stays-ok");
    };
    assert!(rcursor == next_cursor, "C17/unwrap_list_keys/cursor-unchanged");
    assert!(rkeys.as_ptr() == ptr && rkeys.len() == len, "C17/unwrap_list_keys/page-is-the-same-buffer-same-length");
    let r0 = rkeys.first().map(|k| (k.as_ptr(), k.len(), k.as_bytes().first().copied()));
    let r1 = rkeys.get(1).map(|k| (k.as_ptr(), k.len(), k.as_bytes().first().copied()));
    assert!(r0 == k0 && r1 == k1, "C17/unwrap_list_keys/keys-unchanged-in-order");
    kani::cover!(len == 2, "C17/unwrap_list_keys/two-keys/reached");
    kani::cover!(len == 0, "C17/unwrap_list_keys/empty-page/reached");
}

// ---- shell-reported errors pass through every unwrap unchanged

#[kani::proof]
#[kani::unwind(4)] // BOUNDED: payload length <= 2 (bytes, chars, keys); all variants symbolic
fn k_errors_pass_through_unchanged() {
    let error = any_error();
    let which = kani::any::<u8>() % 5;
    let res = KeyValueResult::Err {
        error: error.clone(),
    };
    let same = match which {
        0 => res.unwrap_get() == Err(error),
        1 => res.unwrap_set() == Err(error),
        2 => res.unwrap_delete() == Err(error),
        3 => res.unwrap_exists() == Err(error),
        _ => res.unwrap_list_keys() == Err(error),
    };
    assert!(same, "C17/unwrap_*/shell-error-passed-through-unchanged");
    kani::cover!(which == 0, "C17/unwrap_*/error/get/reached");
    kani::cover!(which == 4, "C17/unwrap_*/error/list_keys/reached");
}

// ---- a response of the wrong kind is rejected explicitly (panic), never mapped to a value

#[kani::proof]
#[kani::unwind(4)] // BOUNDED: payload length <= 2 (bytes, chars, keys); all variants symbolic
fn k_wrong_kind_reject() {
    let which = kani::any::<u8>() % 5; // which unwrap
    let kind = kani::any::<u8>() % 5; // which response kind
    kani::assume(which != kind);
    let res = KeyValueResult::Ok {
        response: any_response_of(kind),
    };
    kani::cover!(true, "C17/unwrap_*/wrong-kind/reject/reached");
    match which {
        0 => {
            let _ = res.unwrap_get();
        }
        1 => {
            let _ = res.unwrap_set();
        }
        2 => {
            let _ = res.unwrap_delete();
        }
        3 => {
            let _ = res.unwrap_exists();
        }
        _ => {
            let _ = res.unwrap_list_keys();
        }
    }
    kani::cover!(true, "C17/unwrap_*/wrong-kind/reject/returned-normally");
}

// ---- Value <-> Option<Vec<u8>> conversions

#[kani::proof]
#[kani::unwind(4)] // BOUNDED: payload length <= 2 (bytes, chars, keys); all variants symbolic
fn k_value_conversions_exact() {
    let bytes = any_bytes();
    assert!(Value::from(bytes.clone()) == Value::Bytes(bytes.clone()), "C17/Value::from(Vec)/bytes-unchanged");
    let v = any_value();
    let o: Option<Vec<u8>> = v.clone().into();
    assert!(o == option_of(v.clone()), "C17/Option::from(Value)/exact");
    assert!(Value::from(o.clone()) == v, "C17/Value::from(Option)/roundtrip-identity");
    assert!(o.is_none() == matches!(v, Value::None), "C17/Option::from(Value)/absent-distinct-from-empty");
    kani::cover!(matches!(o, Some(ref b) if b.is_empty()), "C17/Value/empty-bytes/reached");
    kani::cover!(o.is_none(), "C17/Value/none/reached");
}

// Concrete-playback tests generated by Kani for a failing run are written here by
// /verif/bin/check (the file is empty otherwise).
include!("/verif/work/playback/crux_kv.rs");
