// Unit A (C02, C09, C12): harnesses compiled inside crux_core under cfg(kani).
// All functions under proof are loop-free and every input is symbolic over its whole type
// (arity x payload value), so a successful harness is a complete proof for the instantiation
// Out = u64 / u8 (the functions are parametric in Out; that is an assumption, listed).
// Label conventions: see /verif/kani/crux_time.rs.
use crate as crux_core;
use crate::bridge::{BridgeError, ResolveSerialized};
use crate::capability::Operation;
use crate::core::{Resolve, ResolveError};
use crate::Request;
use serde::{Deserialize, Serialize};
use std::sync::atomic::{AtomicBool, AtomicU64, AtomicUsize, Ordering::SeqCst};
use std::sync::Arc;

/// What a continuation saw: number of calls and the first two values, in order.
#[derive(Default)]
struct Rec {
    calls: AtomicUsize,
    v0: AtomicU64,
    v1: AtomicU64,
    /// what a Many continuation answers (false = its consumer has ended)
    alive: AtomicBool,
}

impl Rec {
    fn new() -> Arc<Rec> {
        let r = Rec::default();
        r.alive.store(true, SeqCst);
        Arc::new(r)
    }
    fn record(&self, out: u64) {
        match self.calls.fetch_add(1, SeqCst) {
            0 => self.v0.store(out, SeqCst),
            1 => self.v1.store(out, SeqCst),
            _ => {}
        }
    }
    fn calls(&self) -> usize {
        self.calls.load(SeqCst)
    }
}

fn once(rec: &Arc<Rec>) -> Resolve<u64> {
    let rec = rec.clone();
    Resolve::Once(Box::new(move |out| rec.record(out)))
}

fn many(rec: &Arc<Rec>) -> Resolve<u64> {
    let rec = rec.clone();
    Resolve::Many(Box::new(move |out| {
        rec.record(out);
        if rec.alive.load(SeqCst) {
            Ok(())
        } else {
            Err(())
        }
    }))
}

// ---- in-place contract of Resolve::resolve (arity state machine), proved on the real body

// Trivial, zero-sized continuations: the contract speaks of the arity only (contract checking
// treats the freeing of a consumed Box as a write outside `modifies(self)`, and a ZST box owns no
// allocation); what the continuation sees is the business of the plain harnesses below.
// One harness per arity (a single harness over a symbolic arity needs ~80 s).
static MANY_ALIVE: AtomicBool = AtomicBool::new(true);
#[kani::proof_for_contract(Resolve::resolve)]
fn a_resolve_contract_never() {
    let mut r: Resolve<u64> = Resolve::Never;
    let _ = r.resolve(kani::any());
    kani::cover!(true, "C02/Resolve::resolve/contract/never/reached");
}
#[kani::proof_for_contract(Resolve::resolve)]
fn a_resolve_contract_once() {
    let mut r: Resolve<u64> = Resolve::Once(Box::new(|_| {}));
    let _ = r.resolve(kani::any());
    kani::cover!(true, "C02/Resolve::resolve/contract/once/reached");
}
#[kani::proof_for_contract(Resolve::resolve)]
fn a_resolve_contract_many() {
    MANY_ALIVE.store(kani::any(), SeqCst);
    let mut r: Resolve<u64> = Resolve::Many(Box::new(|_| if MANY_ALIVE.load(SeqCst) { Ok(()) } else { Err(()) }));
    let _ = r.resolve(kani::any());
    kani::cover!(true, "C02/Resolve::resolve/contract/many/reached");
}

// ---- what a contract over the signature cannot see: who is called, how often, with what

#[kani::proof]
fn a_once_delivers_exactly_once_then_rejects() {
    let rec = Rec::new();
    let mut r = once(&rec);
    let (v, w): (u64, u64) = (kani::any(), kani::any());
    let first = r.resolve(v);
    assert!(first.is_ok(), "C02/once/first-resolution-accepted");
    assert!(rec.calls() == 1 && rec.v0.load(SeqCst) == v, "C02/once/value-reaches-its-continuation-unchanged-exactly-once");
    let second = r.resolve(w);
    assert!(matches!(second, Err(ResolveError::Never)), "C02/once/second-resolution-rejected-with-error");
    assert!(rec.calls() == 1 && rec.v0.load(SeqCst) == v, "C02/once/rejected-resolution-has-no-effect");
    kani::cover!(true, "C02/once/reached");
}

#[kani::proof]
fn a_never_accepts_none() {
    let mut r: Resolve<u64> = Resolve::Never;
    let first = r.resolve(kani::any());
    assert!(matches!(first, Err(ResolveError::Never)), "C02/never/resolution-rejected-with-error");
    let second = r.resolve(kani::any());
    assert!(matches!(second, Err(ResolveError::Never)), "C02/never/stays-rejecting");
    kani::cover!(true, "C02/never/reached");
}

#[kani::proof]
fn a_many_delivers_each_once_in_order() {
    let rec = Rec::new();
    let mut r = many(&rec);
    let (v, w): (u64, u64) = (kani::any(), kani::any());
    let first = r.resolve(v);
    assert!(first.is_ok(), "C02/many/first-accepted-while-consumer-alive");
    assert!(rec.calls() == 1 && rec.v0.load(SeqCst) == v, "C02/many/first-value-delivered-once-unchanged");
    let ended: bool = kani::any();
    rec.alive.store(!ended, SeqCst);
    let second = r.resolve(w);
    assert!(rec.calls() == 2 && rec.v0.load(SeqCst) == v && rec.v1.load(SeqCst) == w, "C02/many/values-offered-once-each-in-order");
    assert!(second.is_ok() == !ended, "C02/many/accepted-iff-consumer-alive");
    assert!(!ended || matches!(second, Err(ResolveError::FinishedMany)), "C02/many/ended-consumer-rejects-with-FinishedMany");
    kani::cover!(ended, "C02/many/ended/reached");
    kani::cover!(!ended, "C02/many/alive/reached");
}

// ---- Request::resolve is exactly Resolve::resolve on the request's own continuation

#[derive(Clone, PartialEq, Debug, Serialize, Deserialize)]
pub struct OpA(pub u8);
impl Operation for OpA {
    type Output = u64;
}
#[derive(Clone, PartialEq, Debug, Serialize, Deserialize)]
pub struct OpB(pub u16);
impl Operation for OpB {
    type Output = u8;
}

#[kani::proof]
fn a_request_resolve_routes_to_own_continuation() {
    // two simultaneously outstanding requests with equal operations
    let (ra, rb) = (Rec::new(), Rec::new());
    let op: u8 = kani::any();
    let (ca, cb) = (ra.clone(), rb.clone());
    let mut a = Request::resolves_once(OpA(op), move |o| ca.record(o));
    let mut b = Request::resolves_once(OpA(op), move |o| cb.record(o));
    let (v, w): (u64, u64) = (kani::any(), kani::any());
    let b_first: bool = kani::any();
    if b_first {
        assert!(b.resolve(w).is_ok(), "C02/request/out-of-order-resolution-accepted");
        assert!(ra.calls() == 0, "C02/request/other-request-not-touched");
    }
    assert!(a.resolve(v).is_ok(), "C02/request/resolution-accepted");
    assert!(ra.calls() == 1 && ra.v0.load(SeqCst) == v, "C02/request/value-reaches-issuer-unchanged");
    assert!(rb.calls() == (b_first as usize) && (!b_first || rb.v0.load(SeqCst) == w), "C02/request/no-other-continuation-receives-it");
    assert!(matches!(a.resolve(w), Err(ResolveError::Never)) && ra.calls() == 1, "C02/request/second-resolution-rejected-without-effect");
    assert!(a.operation == OpA(op) && b.operation == OpA(op), "C02/request/operation-untouched");
    let mut n = Request::resolves_never(OpA(op));
    assert!(matches!(n.resolve(v), Err(ResolveError::Never)), "C02/request/notification-accepts-none");
    kani::cover!(b_first, "C02/request/out-of-order/reached");
    kani::cover!(!b_first, "C02/request/in-order/reached");
}

// ---- the serialized path: Request::serialize / Resolve::deserializing / ResolveSerialized::resolve
use serde::de::value::{BoolDeserializer, Error as ValueError, U8Deserializer};
use serde::de::IntoDeserializer;

/// A request for OpB (Output = u8) of symbolic arity `which` (0 never, 1 once, 2 many) whose
/// continuation records into `rec`.
fn any_request_b(which: u8, op: u16, rec: &Arc<Rec>) -> Request<OpB> {
    let c = rec.clone();
    match which {
        0 => Request::resolves_never(OpB(op)),
        1 => Request::resolves_once(OpB(op), move |o: u8| c.record(o as u64)),
        _ => Request::resolves_many_times(OpB(op), move |o: u8| {
            c.record(o as u64);
            if c.alive.load(SeqCst) {
                Ok(())
            } else {
                Err(())
            }
        }),
    }
}

// (one harness per arity: with a symbolic arity CBMC does not finish on the drop glue of the
// three boxed closures at once)
fn serialize_keeps_payload_and_arity(which: u8) {
    let rec = Rec::new();
    let op: u16 = kani::any();
    let req = any_request_b(which, op, &rec);
    let (eff, rs) = req.serialize(|op| op);
    assert!(eff == OpB(op), "C09/serialize/payload-unchanged");
    assert!(rs.kind() == which, "C09/serialize/arity-preserved");
    assert!(rec.calls() == 0, "C09/serialize/continuation-not-called");
}
#[kani::proof]
fn a_serialize_never_keeps_payload_and_arity() {
    serialize_keeps_payload_and_arity(0);
    kani::cover!(true, "C09/serialize/never/reached");
}
#[kani::proof]
fn a_serialize_once_keeps_payload_and_arity() {
    serialize_keeps_payload_and_arity(1);
    kani::cover!(true, "C09/serialize/once/reached");
}
#[kani::proof]
fn a_serialize_many_keeps_payload_and_arity() {
    serialize_keeps_payload_and_arity(2);
    kani::cover!(true, "C09/serialize/many/reached");
}

#[kani::proof]
fn a_serialized_once_delivers_decoded_value() {
    let rec = Rec::new();
    let (_eff, mut rs) = any_request_b(1, kani::any(), &rec).serialize(|op| op);
    let x: u8 = kani::any();
    let de: U8Deserializer<ValueError> = x.into_deserializer();
    let mut d = <dyn erased_serde::Deserializer>::erase(de);
    let r = rs.resolve(&mut d);
    assert!(r.is_ok(), "C09/serialized-once/response-accepted");
    assert!(rec.calls() == 1 && rec.v0.load(SeqCst) == x as u64, "C09/serialized-once/decoded-value-reaches-the-typed-continuation-unchanged-once");
    assert!(rs.kind() == 0, "C02/serialized-once/becomes-never");
    let y: u8 = kani::any();
    let de2: U8Deserializer<ValueError> = y.into_deserializer();
    let mut d2 = <dyn erased_serde::Deserializer>::erase(de2);
    let r2 = rs.resolve(&mut d2);
    assert!(matches!(r2, Err(BridgeError::ProcessResponse(ResolveError::Never))), "C02/serialized-once/second-response-rejected-with-error");
    assert!(rec.calls() == 1 && rec.v0.load(SeqCst) == x as u64, "C02/serialized-once/second-response-has-no-effect");
    kani::cover!(true, "C09/serialized-once/reached");
}

#[kani::proof]
fn a_serialized_never_rejects() {
    let rec = Rec::new();
    let (_eff, mut rs) = any_request_b(0, kani::any(), &rec).serialize(|op| op);
    let de: U8Deserializer<ValueError> = kani::any::<u8>().into_deserializer();
    let mut d = <dyn erased_serde::Deserializer>::erase(de);
    let r = rs.resolve(&mut d);
    assert!(matches!(r, Err(BridgeError::ProcessResponse(ResolveError::Never))), "C02/serialized-never/response-rejected-with-error");
    assert!(rs.kind() == 0 && rec.calls() == 0, "C02/serialized-never/no-effect");
    kani::cover!(true, "C02/serialized-never/reached");
}

#[kani::proof]
fn a_serialized_many_delivers_each_in_order() {
    let rec = Rec::new();
    let (_eff, mut rs) = any_request_b(2, kani::any(), &rec).serialize(|op| op);
    let (x, y): (u8, u8) = (kani::any(), kani::any());
    let de: U8Deserializer<ValueError> = x.into_deserializer();
    let mut d = <dyn erased_serde::Deserializer>::erase(de);
    assert!(rs.resolve(&mut d).is_ok(), "C02/serialized-many/first-accepted");
    let ended: bool = kani::any();
    rec.alive.store(!ended, SeqCst);
    let de2: U8Deserializer<ValueError> = y.into_deserializer();
    let mut d2 = <dyn erased_serde::Deserializer>::erase(de2);
    let r2 = rs.resolve(&mut d2);
    assert!(rec.calls() == 2 && rec.v0.load(SeqCst) == x as u64 && rec.v1.load(SeqCst) == y as u64, "C09/serialized-many/decoded-values-delivered-once-each-in-order");
    assert!(rs.kind() == 2, "C02/serialized-many/stays-many");
    assert!(r2.is_ok() == !ended, "C02/serialized-many/accepted-iff-consumer-alive");
    assert!(!ended || matches!(r2, Err(BridgeError::ProcessResponse(ResolveError::FinishedMany))), "C02/serialized-many/ended-consumer-rejects-with-FinishedMany");
    kani::cover!(ended, "C02/serialized-many/ended/reached");
    kani::cover!(!ended, "C02/serialized-many/alive/reached");
}

// ---- C12: a response that does not decode never reaches the continuation
fn stub_format(_args: std::fmt::Arguments<'_>) -> String {
    String::new()
}

fn undecodable_response(which: u8) -> (Arc<Rec>, ResolveSerialized, Result<(), BridgeError>) {
    let rec = Rec::new();
    let (_eff, mut rs) = any_request_b(which, kani::any(), &rec).serialize(|op| op);
    // a bool where a u8 is expected: serde reports invalid_type
    let de: BoolDeserializer<ValueError> = kani::any::<bool>().into_deserializer();
    let mut d = <dyn erased_serde::Deserializer>::erase(de);
    let r = rs.resolve(&mut d);
    (rec, rs, r)
}

#[kani::proof]
#[kani::stub(alloc::fmt::format, stub_format)]
fn a_undecodable_response_once_never_reaches_continuation() {
    let (rec, rs, r) = undecodable_response(1);
    assert!(matches!(r, Err(BridgeError::DeserializeOutput(_))), "C12/undecodable-response/once/rejected-with-DeserializeOutput");
    assert!(rec.calls() == 0, "C12/undecodable-response/once/continuation-not-called");
    kani::cover!(true, "C12/undecodable-response/once/reached");
    let _ = rs;
}

#[kani::proof]
#[kani::stub(alloc::fmt::format, stub_format)]
fn a_undecodable_response_many_never_reaches_continuation() {
    let (rec, rs, r) = undecodable_response(2);
    assert!(matches!(r, Err(BridgeError::DeserializeOutput(_))), "C12/undecodable-response/many/rejected-with-DeserializeOutput");
    assert!(rec.calls() == 0, "C12/undecodable-response/many/continuation-not-called");
    assert!(rs.kind() == 2, "C12/undecodable-response/many/subscription-survives");
    kani::cover!(true, "C12/undecodable-response/many/reached");
}

#[kani::proof]
#[kani::stub(alloc::fmt::format, stub_format)]
fn a_undecodable_response_never_rejected() {
    let (rec, rs, r) = undecodable_response(0);
    assert!(matches!(r, Err(BridgeError::ProcessResponse(ResolveError::Never))), "C12/undecodable-response/never/rejected-with-error");
    assert!(rec.calls() == 0 && rs.kind() == 0, "C12/undecodable-response/never/no-effect");
    kani::cover!(true, "C12/undecodable-response/never/reached");
}

// ---- in-place contract of ResolveSerialized::resolve (the arity transition unit R relies on)
// The continuations are zero-sized (they read a static): contract checking treats the freeing of a
// consumed Box as a write outside `modifies(self)`, and a ZST box owns no allocation.
static CONT_OK: AtomicBool = AtomicBool::new(true);
fn cont_result() -> Result<(), BridgeError> {
    if CONT_OK.load(SeqCst) {
        Ok(())
    } else {
        Err(BridgeError::ProcessResponse(ResolveError::FinishedMany))
    }
}
fn resolve_serialized_contract_case(mut rs: ResolveSerialized) {
    CONT_OK.store(kani::any(), SeqCst);
    let de: U8Deserializer<ValueError> = kani::any::<u8>().into_deserializer();
    let mut d = <dyn erased_serde::Deserializer>::erase(de);
    let _ = rs.resolve(&mut d);
}
// one contract harness per arity (a single harness over a symbolic arity needs ~250 s)
#[kani::proof_for_contract(ResolveSerialized::resolve)]
fn a_resolve_serialized_contract_never() {
    resolve_serialized_contract_case(ResolveSerialized::Never);
    kani::cover!(true, "C02/ResolveSerialized::resolve/contract/never/reached");
}
#[kani::proof_for_contract(ResolveSerialized::resolve)]
fn a_resolve_serialized_contract_once() {
    resolve_serialized_contract_case(ResolveSerialized::Once(Box::new(|_| cont_result())));
    kani::cover!(true, "C02/ResolveSerialized::resolve/contract/once/reached");
    kani::cover!(true, "C12/ResolveSerialized::resolve/contract/once/reached"); // the arity contract also serves C12 and C09
}
#[kani::proof_for_contract(ResolveSerialized::resolve)]
fn a_resolve_serialized_contract_many() {
    resolve_serialized_contract_case(ResolveSerialized::Many(Box::new(|_| cont_result())));
    kani::cover!(true, "C02/ResolveSerialized::resolve/contract/many/reached");
    kani::cover!(true, "C12/ResolveSerialized::resolve/contract/many/reached"); // a rejected item must not end the subscription
    kani::cover!(true, "C09/ResolveSerialized::resolve/contract/many/reached");
}

// ---- macro-generated Effect::serialize (real crux_macros::effect expansion)
#[crate::macros::effect]
pub enum TestEffect {
    A(OpA),
    B(OpB),
}

#[kani::proof]
fn a_generated_effect_serialize_maps_variant_a() {
    use crate::Effect as _;
    let rec = Rec::new();
    let c = rec.clone();
    let op: u8 = kani::any();
    let eff = TestEffect::A(Request::resolves_once(OpA(op), move |o: u64| c.record(o)));
    let (ffi, rs) = eff.serialize();
    assert!(matches!(ffi, TestEffectFfi::A(OpA(x)) if x == op), "C09/generated-serialize/A/same-named-variant-same-payload");
    assert!(rs.kind() == 1, "C09/generated-serialize/A/arity-preserved");
    kani::cover!(true, "C09/generated-serialize/A/reached");
}

#[kani::proof]
fn a_generated_effect_serialize_maps_variant_b() {
    use crate::Effect as _;
    let op: u16 = kani::any();
    let eff = TestEffect::B(Request::resolves_never(OpB(op)));
    let (ffi, rs) = eff.serialize();
    assert!(matches!(ffi, TestEffectFfi::B(OpB(x)) if x == op), "C09/generated-serialize/B/same-named-variant-same-payload");
    assert!(rs.kind() == 0, "C09/generated-serialize/B/arity-preserved");
    kani::cover!(true, "C09/generated-serialize/B/reached");
}

// ---- the legacy derive(Effect) on a Capabilities struct (crux_macros/src/effect_derive.rs), real expansion
mod legacy_effect {
    use crate::capability::CapabilityContext;
    use crate::macros::{Capability, Effect};
    use crate::render::Render;

    pub enum Event {
        #[allow(dead_code)]
        Nothing,
    }

    #[derive(Capability)]
    pub struct CapB<Ev> {
        #[allow(dead_code)]
        context: CapabilityContext<super::OpB, Ev>,
    }
    impl<Ev> CapB<Ev> {
        pub fn new(context: CapabilityContext<super::OpB, Ev>) -> Self {
            Self { context }
        }
    }

    #[derive(Effect)]
    #[allow(dead_code)]
    pub struct Capabilities {
        pub render: Render<Event>,
        pub b: CapB<Event>,
    }
}

#[kani::proof]
fn a_derived_effect_serialize_maps_capability_variant() {
    use crate::Effect as _;
    let rec = Rec::new();
    let c = rec.clone();
    let op: u16 = kani::any();
    let eff = legacy_effect::Effect::CapB(Request::resolves_once(OpB(op), move |o: u8| c.record(o as u64)));
    let (ffi, rs) = eff.serialize();
    assert!(matches!(ffi, legacy_effect::EffectFfi::CapB(OpB(x)) if x == op), "C09/derived-serialize/CapB/same-named-variant-same-payload");
    assert!(rs.kind() == 1, "C09/derived-serialize/CapB/arity-preserved");
    assert!(rec.calls() == 0, "C09/derived-serialize/CapB/continuation-not-called");
    kani::cover!(true, "C09/derived-serialize/CapB/reached");
}

#[kani::proof]
fn a_derived_effect_serialize_maps_render_variant() {
    use crate::Effect as _;
    let eff = legacy_effect::Effect::Render(Request::resolves_never(crate::render::RenderOperation));
    let (ffi, rs) = eff.serialize();
    assert!(matches!(ffi, legacy_effect::EffectFfi::Render(crate::render::RenderOperation)), "C09/derived-serialize/Render/same-named-variant");
    assert!(rs.kind() == 0, "C09/derived-serialize/Render/arity-preserved");
    kani::cover!(true, "C09/derived-serialize/Render/reached");
}

// ---- the Command API's notification (command/context.rs:38-50)
// crossbeam's send cannot be compiled by Kani (ICE, DESIGN 2.2); it is stubbed out: the request
// is captured where the real code converts it into the effect (`request.into()`), so the
// effect channel itself is not needed.
use crate::command::CommandContext;
use std::sync::Mutex;

fn stub_xb_send<T>(_s: &crossbeam_channel::Sender<T>, t: T) -> Result<(), crossbeam_channel::SendError<T>> {
    XB_SENDS.fetch_add(1, SeqCst);
    std::mem::forget(t);
    Ok(())
}
static XB_SENDS: AtomicUsize = AtomicUsize::new(0);
static CAPTURED: Mutex<Option<Request<OpA>>> = Mutex::new(None);
/// an effect type whose conversion from the request hands the request to the harness
pub struct CapturingEffect;
impl From<Request<OpA>> for CapturingEffect {
    fn from(r: Request<OpA>) -> Self {
        *CAPTURED.lock().unwrap() = Some(r);
        CapturingEffect
    }
}
fn test_context() -> CommandContext<CapturingEffect, u8> {
    let (effects, _e) = crossbeam_channel::unbounded();
    let (events, _v) = crossbeam_channel::unbounded();
    let (tasks, _t) = crossbeam_channel::unbounded();
    std::mem::forget((_e, _v, _t));
    CommandContext { effects, events, tasks }
}

// NOT BUILT: the same for stream_from_shell / request_from_shell. With crossbeam's send stubbed the
// harness compiles, but CBMC does not finish in 15 min: it cannot resolve the heap state of the
// three crossbeam channels and of futures-mpsc concretely and explores their disconnect-on-drop
// and lock-contention loops on every path (tried: unwind 2 and 3, forgetting every crossbeam
// value, taking the ShellStream apart instead of polling it). The closures built there stay
// `not_decided` for C02.

#[kani::proof]
#[kani::stub(crossbeam_channel::Sender::send, stub_xb_send)]
fn a_command_notification_accepts_no_resolution() {
    let ctx = test_context();
    ctx.notify_shell(OpA(kani::any()));
    assert!(XB_SENDS.load(SeqCst) == 1, "C02/command-notify/exactly-one-effect-sent");
    let mut req = CAPTURED.lock().unwrap().take().unwrap();
    assert!(matches!(req.resolve(kani::any()), Err(ResolveError::Never)), "C02/command-notify/resolution-rejected");
    kani::cover!(true, "C02/command-notify/reached");
    std::mem::forget(ctx);
}

// NOT BUILT: the legacy capability API's request_from_shell / ShellRequest::poll
// (capability/shell_request.rs). A harness with crossbeam's send stubbed and the request captured
// through channel::Sender::map_input compiles, but CBMC does not finish in 15 min: every drop of
// the `Arc<dyn SenderInner>` is vtable-dispatched over all implementors and drags crossbeam's
// disconnect-on-drop loops into every path (1500 loop unwindings before the timeout).

// Concrete-playback tests generated by Kani for a failing run are written here by
// /verif/bin/check (the file is empty otherwise).
include!("/verif/work/playback/crux_core.rs");
